// C11 harness: Buffer string encodings, every decoding entry point, toString ranges, write, fill, array-likes.
package main

import (
	"fmt"
	"math"
	"math/big"
	"os"
	"strconv"
	"strings"
	"time"
	"unicode/utf8"

	"github.com/dop251/goja"
	"github.com/dop251/goja_nodejs/buffer"
	"github.com/dop251/goja_nodejs/require"

	"verif/harness/lib"
)

var encs = []string{"hex", "base64", "base64url", "base64Url", "utf8", "utf-8", ""}
var badEncs = []string{"latin1", "HEX", "utf16le", "ascii", "binary"}

func zl(b []byte) string {
	p := make([]string, len(b))
	for i, c := range b {
		p[i] = strconv.Itoa(int(c))
	}
	return "[" + strings.Join(p, ";") + "]"
}

// code points of a JS string given as Go string produced by goja (lone surrogates already U+FFFD) — for strings we
// build ourselves we keep the code point list explicitly
func cps(r []rune) string {
	p := make([]string, len(r))
	for i, c := range r {
		p[i] = strconv.Itoa(int(c))
	}
	return "[" + strings.Join(p, ";") + "]"
}

func encArg(e string) (coq string, js string) {
	if e == "" {
		return "EUndef", "undefined"
	}
	return "(EName " + lib.ZsStr(e) + ")", strconv.Quote(e)
}

func jsStrLit(r []rune) string { // JS literal incl. lone surrogates
	var sb strings.Builder
	sb.WriteByte('"')
	for _, c := range r {
		switch {
		case c > 0xFFFF:
			c -= 0x10000
			fmt.Fprintf(&sb, "\\u%04x\\u%04x", 0xD800+(c>>10), 0xDC00+(c&0x3FF))
		default:
			fmt.Fprintf(&sb, "\\u%04x", c)
		}
	}
	sb.WriteByte('"')
	return sb.String()
}

type numArg struct{ src, coq string }

func mkNum(vm *goja.Runtime, src string) numArg {
	v, err := vm.RunString("(" + src + ")")
	if err != nil {
		panic(err)
	}
	switch {
	case goja.IsUndefined(v):
		return numArg{src, "AUndef"}
	case goja.IsNumber(v):
		return numArg{src, fmt.Sprintf("(ANum %s %d)", lib.Z(v.ToInteger()), math.Float64bits(v.ToFloat()))}
	default:
		return numArg{src, "AOther"}
	}
}

// run a script with a watchdog. A native that spins inside Go cannot be interrupted: the goroutine is abandoned
// and the caller must switch to a fresh runtime (newVM).
var hangs int

func run(vm *goja.Runtime, script string) (res goja.Value, errs string, panicked bool, hung bool) {
	type result struct {
		v        goja.Value
		errs     string
		panicked bool
	}
	ch := make(chan result, 1)
	go func() {
		var r result
		func() {
			defer func() {
				if x := recover(); x != nil {
					r.panicked = true
					r.errs = fmt.Sprint(x)
				}
			}()
			v, err := vm.RunString(script)
			if err != nil {
				r.errs = err.Error()
			}
			r.v = v
		}()
		ch <- r
	}()
	select {
	case r := <-ch:
		return r.v, r.errs, r.panicked, false
	case <-time.After(3 * time.Second):
		hangs++
		vm.Interrupt("watchdog")
		return nil, "hang", false, true
	}
}

func newVM() *goja.Runtime {
	vm := goja.New()
	new(require.Registry).Enable(vm)
	buffer.Enable(vm)
	if _, err := vm.RunString(`function __cls(e){ return (e instanceof RangeError) ? 2 : (e instanceof TypeError) ? 1 : 3 }
function __cp(s){ return Array.from(s, function(c){ return c.codePointAt(0) }) }`); err != nil {
		panic(err)
	}
	return vm
}

func main() {
	outPath := os.Args[1]
	n := 1600
	if lib.Tier() == "thorough" {
		n = 25000
	}
	if len(os.Args) > 2 {
		n, _ = strconv.Atoi(os.Args[2])
	}
	out := lib.NewOutput("C11")
	r := lib.NewRand(lib.Seed())
	vm := newVM()

	genBytes := func() ([]byte, bool) {
		k := r.Intn(14)
		if r.Chance(10) {
			k = 0
		}
		b := make([]byte, k)
		switch r.Intn(4) {
		case 0: // arbitrary bytes (often ill-formed UTF-8)
			for i := range b {
				b[i] = byte(r.U64())
			}
		case 1: // ASCII
			for i := range b {
				b[i] = byte(32 + r.Intn(95))
			}
		case 2: // well-formed multi-byte
			s := ""
			for len(s) < k {
				s += r.Pick([]string{"a", "é", "€", "日", "🙂", "\x00", " ", "ÿ", "\U0010FFFF", "�"})
			}
			b = []byte(s)
		default: // specific ill-formed kinds
			b = []byte(r.Pick([]string{"\xc3", "a\xe2\x82", "\xf0\x9f\x99", "\xed\xa0\x80", "\xc0\xaf", "\xf5\x80\x80\x80", "\x80", "ab\xff", "\xe2\x28\xa1", "\xf0\x28\x8c\xbc"}))
		}
		return b, utf8.Valid(b)
	}
	strPieces := map[string][]string{
		"hex":    {"00", "ff", "4a", "4A", "a", "zz", "0g", " ", "deadBEEF", "0x", "é"},
		"base64": {"QUJD", "QQ==", "QUI=", "QQ", "QUI", "-_", "+/", "\n", "\r\n", "=", "==", "Q", "!!", " ", "A", "////", "é", "QUJDRA", "Zm9vYmFy", "=QUJD"},
		"utf8":   {"a", "é", "€", "日本", "🙂", "\x00", "x"},
	}
	loneSur := []rune{0xD800, 0xDFFF, 0xDBFF}

	genStr := func(kind string) []rune {
		k := r.Intn(6)
		var rs []rune
		for i := 0; i < k; i++ {
			rs = append(rs, []rune(r.Pick(strPieces[kind]))...)
			// any ASCII character in a digit position: a decoder that classifies by bit tricks (case folding, table look-up
			// without a range check) shows on control characters and on the neighbours of the digit and letter ranges
			if kind != "utf8" && r.Chance(22) {
				rs = append(rs, rune(r.Intn(128)))
				if r.Chance(60) {
					rs = append(rs, []rune(r.Pick([]string{"4", "a", "F", "41", "Q"}))...)
				}
			}
			if kind == "utf8" && r.Chance(8) {
				rs = append(rs, loneSur[r.Intn(3)])
			}
		}
		return rs
	}
	kindOf := func(e string) string {
		switch e {
		case "hex":
			return "hex"
		case "base64", "base64url", "base64Url":
			return "base64"
		}
		return "utf8"
	}
	bytesOf := func(v goja.Value) []byte { return append([]byte{}, buffer.Bytes(vm, v)...) }
	rangeArgs := []string{"0", "1", "-1", "2", "3", "5", "100", "-100", "undefined", "NaN", "1.9", "-0.5", `"2"`, "null", "9223372036854775807", "-9223372036854775808", "1e30", "Infinity", "-Infinity", "{}"}

	lastHangs := 0
	for c := 0; c < n; c++ {
		if hangs != lastHangs { // a native is still spinning in the old runtime: abandon it
			lastHangs = hangs
			vm = newVM()
			if hangs >= 4 {
				out.Notes = append(out.Notes, "stopped early: 4 calls hung (each leaves a spinning goroutine)")
				break
			}
		}
		e := r.Pick(encs)
		if r.Chance(4) {
			e = r.Pick(badEncs)
		}
		eCoq, eJS := encArg(e)
		switch kind := r.Intn(12); {
		case kind < 3: // round trip + entry-point agreement on the encoder's output
			b, wf := genBytes()
			vm.Set("__b", vm.NewArrayBuffer(append([]byte{}, b...)))
			script := fmt.Sprintf(`(function(){ var b = Buffer.from(__b); var s = b.toString(%s); var back = Buffer.from(s, %s); return [__cp(s), back, b.equals(back)] })()`, eJS, eJS)
			res, errs, pan, hung := run(vm, script)
			id := len(out.Cases)
			if pan || hung {
				out.Fail(id, "roundtrip-crash", map[string]interface{}{"bytes": fmt.Sprintf("%x", b), "enc": e, "err": errs})
				out.Add("crashed", nil, false)
				continue
			}
			if errs != "" { // unknown encoding in toString
				out.Add("crashed", map[string]string{"bytes": fmt.Sprintf("%x", b), "enc": e, "err": errs}, false, "unknown-encoding")
				out.Count("kind", "roundtrip-unknown-enc")
				continue
			}
			arr := res.ToObject(vm)
			back := bytesOf(arr.Get("1"))
			out.Add(fmt.Sprintf("KRoundTrip %s %s %s %s", eCoq, zl(b), lib.Bool(wf), zl(back)),
				map[string]interface{}{"bytes": fmt.Sprintf("%x", b), "enc": e, "toString": arr.Get("0").String(), "back": fmt.Sprintf("%x", back)}, len(b) > 0 && (kindOf(e) != "utf8" || !isASCII(b)))
			out.Count("kind", "roundtrip-"+kindOf(e))
			if !wf {
				out.Count("utf8_wellformed", "ill-formed")
			} else {
				out.Count("utf8_wellformed", "well-formed")
			}
		case kind < 5: // toString(enc, start, end)
			b, wf := genBytes()
			as, ae := mkNum(vm, r.Pick(rangeArgs)), mkNum(vm, r.Pick(rangeArgs))
			if r.Chance(50) {
				as = mkNum(vm, strconv.Itoa(r.Intn(len(b)+2)-1))
				ae = mkNum(vm, strconv.Itoa(r.Intn(len(b)+2)))
			}
			vm.Set("__b", vm.NewArrayBuffer(append([]byte{}, b...)))
			script := fmt.Sprintf(`(function(){ var b = Buffer.from(__b); try { return [0, __cp(b.toString(%s, %s, %s))] } catch (e) { return [__cls(e), []] } })()`, eJS, as.src, ae.src)
			res, errs, pan, hung := run(vm, script)
			obs := ""
			switch {
			case pan || hung || errs != "":
				obs = "OStrPanic"
			default:
				arr := res.ToObject(vm)
				if cls := arr.Get("0").ToInteger(); cls != 0 {
					obs = fmt.Sprintf("(OStrThrow %d)", cls)
				} else {
					var rs []rune
					for _, x := range arr.Get("1").Export().([]interface{}) {
						rs = append(rs, rune(x.(int64)))
					}
					obs = "(OStr " + cps(rs) + ")"
				}
			}
			out.Add(fmt.Sprintf("KToString %s %s %s %s %s %s", eCoq, zl(b), as.coq, ae.coq, lib.Bool(wf), obs),
				map[string]interface{}{"call": fmt.Sprintf("Buffer(%x).toString(%s, %s, %s)", b, eJS, as.src, ae.src), "observed": obs}, true)
			out.Count("kind", "toString-range")
		case kind < 8: // decoding entry points agree
			rs := genStr(kindOf(e))
			lit := jsStrLit(rs)
			script := fmt.Sprintf(`(function(){ var s = %s; var f = Buffer.from(s, %s);
  var w = Buffer.alloc(f.length + 8); var n = -1, we = null; try { n = w.write(s, 0, undefined, %s) } catch (e) { we = __cls(e) }
  var a = null, ae = null; try { a = f.length > 0 ? Buffer.alloc(f.length, s, %s) : null } catch (e) { ae = __cls(e) }
  return [f, w, n, we, a, ae] })()`, lit, eJS, eJS, eJS)
			res, errs, pan, hung := run(vm, script)
			id := len(out.Cases)
			desc := map[string]interface{}{"string": string(rs), "enc": e}
			if pan || hung || errs != "" {
				out.Fail(id, "decode-crash", map[string]interface{}{"string": string(rs), "enc": e, "err": errs, "hung": hung})
				out.Add("crashed", desc, false)
				continue
			}
			arr := res.ToObject(vm)
			f := bytesOf(arr.Get("0"))
			desc["from"] = fmt.Sprintf("%x", f)
			known := e == "" || kindOf(e) != "utf8" || e == "utf8" || e == "utf-8"
			if known { // write / fill throw on unknown encodings, from falls back to utf8
				w := bytesOf(arr.Get("1"))
				nW := int(arr.Get("2").ToInteger())
				if nW != len(f) || string(w[:len(f)]) != string(f) {
					out.Fail(id, "write-disagrees-with-from", map[string]interface{}{"string": string(rs), "enc": e, "from": fmt.Sprintf("%x", f), "written": fmt.Sprintf("%x", w[:max(nW, 0)])})
				}
				if a := arr.Get("4"); len(f) > 0 && !goja.IsNull(a) {
					if string(bytesOf(a)) != string(f) {
						out.Fail(id, "fill-disagrees-with-from", map[string]interface{}{"string": string(rs), "enc": e, "from": fmt.Sprintf("%x", f), "fill": fmt.Sprintf("%x", bytesOf(a))})
					}
				}
				// Go helpers
				var encV goja.Value = goja.Undefined()
				if e != "" {
					encV = vm.ToValue(e)
				}
				v, _ := vm.RunString(lit)
				func() {
					defer func() {
						if x := recover(); x != nil {
							out.Fail(id, "DecodeBytes-panicked", fmt.Sprint(x))
						}
					}()
					d := buffer.DecodeBytes(vm, v, encV)
					if string(d) != string(f) {
						out.Fail(id, "DecodeBytes-disagrees-with-from", map[string]interface{}{"string": string(rs), "enc": e, "from": fmt.Sprintf("%x", f), "DecodeBytes": fmt.Sprintf("%x", d)})
					}
					if e != "" {
						es := buffer.EncodeBytes(vm, f, encV).String()
						vm.Set("__f", arr.Get("0"))
						ts, _ := vm.RunString("__f.toString(" + eJS + ")")
						if ts != nil && es != ts.String() {
							out.Fail(id, "EncodeBytes-disagrees-with-toString", map[string]interface{}{"bytes": fmt.Sprintf("%x", f), "enc": e, "EncodeBytes": es, "toString": ts.String()})
						}
					}
				}()
			}
			out.Add(fmt.Sprintf("KDecode %s %s %s", eCoq, cps(rs), zl(f)), desc, len(rs) > 0)
			out.Count("kind", "decode-"+kindOf(e))
		case kind < 10: // write(string, offset, length, enc)
			blen := r.Intn(10)
			bb := make([]byte, blen)
			for i := range bb {
				bb[i] = 0xAA
			}
			rs := genStr(kindOf(e))
			if kindOf(e) == "utf8" && r.Chance(60) {
				rs = []rune(r.Pick([]string{"a€", "€€", "日本語", "🙂🙂", "aé", "ééé", "x🙂y"}))
			}
			sArg, sCoq := jsStrLit(rs), "(Some "+cps(rs)+")"
			if r.Chance(5) {
				sArg, sCoq = "123", "None"
			}
			offs := []string{"0", "1", strconv.Itoa(blen), strconv.Itoa(blen - 1), strconv.Itoa(blen + 1), "-1", "undefined", "NaN", `"1"`, "9223372036854775807", "1e30"}
			lens := []string{"undefined", "0", "1", "2", "3", "4", "100", "-1", "NaN", `"2"`, "1e30", "9223372036854775807", "-9223372036854775808"}
			ao, al := mkNum(vm, r.Pick(offs)), mkNum(vm, r.Pick(lens))
			if r.Chance(50) {
				ao = mkNum(vm, strconv.Itoa(r.Intn(blen+1)))
			}
			vm.Set("__b", vm.NewArrayBuffer(append([]byte{}, bb...)))
			script := fmt.Sprintf(`(function(){ var b = Buffer.from(__b); try { var n = b.write(%s, %s, %s, %s); return [0, n, b] } catch (e) { return [__cls(e), 0, b] } })()`, sArg, ao.src, al.src, eJS)
			res, errs, pan, hung := run(vm, script)
			obs := ""
			if pan || hung || errs != "" {
				obs = "OWPanic"
			} else {
				arr := res.ToObject(vm)
				after := bytesOf(arr.Get("2"))
				if cls := arr.Get("0").ToInteger(); cls != 0 {
					obs = fmt.Sprintf("(OWThrow %d)", cls)
					if string(after) != string(bb) {
						out.Fail(len(out.Cases), "write-threw-but-changed-buffer", fmt.Sprintf("%x", after))
					}
				} else {
					obs = fmt.Sprintf("(OW %s %d)", zl(after), arr.Get("1").ToInteger())
				}
			}
			out.Add(fmt.Sprintf("KWrite %s %s %s %s %s %s", zl(bb), sCoq, ao.coq, al.coq, eCoq, obs),
				map[string]interface{}{"call": fmt.Sprintf("Buffer.alloc(%d,0xAA).write(%s, %s, %s, %s)", blen, string(rs), ao.src, al.src, eJS), "observed": obs, "err": errs}, true)
			out.Count("kind", "write")
		case kind < 11: // alloc(size, fill, enc)
			size := r.Intn(12)
			rs := genStr(kindOf(e))
			if r.Chance(15) {
				rs = nil
			}
			script := fmt.Sprintf(`(function(){ try { return [0, Buffer.alloc(%d, %s, %s)] } catch (e) { return [__cls(e), null] } })()`, size, jsStrLit(rs), eJS)
			res, errs, pan, hung := run(vm, script)
			obs := ""
			switch {
			case hung:
				obs = "OFHang"
			case pan || errs != "":
				obs = "OFPanic"
			default:
				arr := res.ToObject(vm)
				if cls := arr.Get("0").ToInteger(); cls != 0 {
					obs = fmt.Sprintf("(OFThrow %d)", cls)
				} else {
					obs = "(OF " + zl(bytesOf(arr.Get("1"))) + ")"
				}
			}
			out.Add(fmt.Sprintf("KFill %s %s %s %s", lib.Nat(size), cps(rs), eCoq, obs),
				map[string]interface{}{"call": fmt.Sprintf("Buffer.alloc(%d, %q, %s)", size, string(rs), eJS), "observed": obs}, true)
			out.Count("kind", "fill")
		default: // array-like / copy vs share / equals
			k := r.Intn(8)
			var items, coq []string
			for i := 0; i < k; i++ {
				s := r.Pick([]string{"0", "1", "255", "256", "257", "-1", "-256", "1.9", "-1.9", "NaN", "1e3", "65535", "4294967296", "9223372036854775807", "-9223372036854775808", "Infinity", `"7"`, "true", "null", "undefined",
					"-Infinity", `"Infinity"`, "2**63", "2**63+2048", "-(2**63)-2048", "2**64+512", "1e20", "-1e20", "1e300", "2**53+2", `"1e20"`, "4294967551.5"})
				items = append(items, s)
				v, _ := vm.RunString("(" + s + ")")
				// the element's mathematical value, truncated (ToUint8 of JavaScript: NaN and the infinities count as 0) - not a
				// conversion that clips at the ends of int64
				fv := v.ToNumber().ToFloat()
				if fv != fv || math.IsInf(fv, 0) {
					coq = append(coq, "0")
				} else {
					bi, _ := big.NewFloat(fv).Int(nil)
					coq = append(coq, "("+bi.String()+")")
				}
			}
			form := r.Intn(3)
			src := "[" + strings.Join(items, ",") + "]"
			if form == 1 {
				src = "(function(){ var o = {length: " + strconv.Itoa(k) + "}; " + src + ".forEach(function(v,i){ o[i] = v }); return o })()"
			}
			script := fmt.Sprintf(`(function(){ var src = %s; var b = Buffer.from(src);
  var c = Buffer.from(b); c[0] = 99; var copyOK = b.length === 0 || b[0] !== 99 || %s[0] == 99;
  var ab = new ArrayBuffer(8); var sh = Buffer.from(ab, 2, 4); sh[0] = 7; var shareOK = new Uint8Array(ab)[2] === 7 && sh.length === 4;
  var ta = new Uint8Array([1,2,3]); var fc = Buffer.from(ta); ta[0] = 9; var taOK = fc[0] === 1;
  var eq = b.equals(Buffer.from(b)) && (b.length === 0 || !b.equals(Buffer.from(b).fill ? Buffer.from(Array.from(b).map(function(x,i){return i==0?(x+1)%%256:x})) : b));
  return [b, copyOK, shareOK, taOK, eq] })()`, src, src)
			res, errs, pan, hung := run(vm, script)
			id := len(out.Cases)
			if pan || hung || errs != "" {
				out.Fail(id, "arraylike-crash", map[string]interface{}{"src": src, "err": errs})
				out.Add("crashed", src, false)
				continue
			}
			arr := res.ToObject(vm)
			for i, name := range []string{"", "from(Buffer)-shares-memory", "from(ArrayBuffer,off,len)-does-not-share", "from(typed array)-shares-memory", "equals-is-not-byte-equality"} {
				if i > 0 && !arr.Get(strconv.Itoa(i)).ToBoolean() {
					out.Fail(id, name, src)
				}
			}
			out.Add(fmt.Sprintf("KArrayLike %s %s", lib.List(coq), zl(bytesOf(arr.Get("0")))), map[string]interface{}{"from": src, "bytes": fmt.Sprintf("%x", bytesOf(arr.Get("0")))}, k > 0)
			out.Count("kind", "arraylike")
		}
	}
	out.Notes = append(out.Notes, "entry-point agreement (from / write / alloc-fill / DecodeBytes, EncodeBytes / toString), copy-vs-share and equals are decided on the Go side; the Coq model is compared on encode, decode, toString ranges, write and fill")
	out.Write(outPath)
}

func isASCII(b []byte) bool {
	for _, c := range b {
		if c >= 0x80 {
			return false
		}
	}
	return true
}

func max(a, b int) int {
	if a > b {
		return a
	}
	return b
}
