// C17 harness (built with -race): (A) the calls documented as safe from any goroutine, made concurrently with a running
// loop and with Start/Stop/Terminate cycles of one controller; (B) first-time requires of the same and of different
// files from many runtimes on different goroutines sharing one Registry. The workload runs in a child process of the
// same binary so that a report of the race detector (or a deadlock) becomes an observation instead of killing the run.
package main

import (
	"encoding/json"
	"errors"
	"fmt"
	"os"
	"os/exec"
	"strconv"
	"strings"
	"sync"
	"sync/atomic"
	"time"

	"github.com/dop251/goja"
	"github.com/dop251/goja_nodejs/console"
	"github.com/dop251/goja_nodejs/eventloop"
	"github.com/dop251/goja_nodejs/require"

	"verif/harness/lib"
)

type silent struct{}

func (silent) Log(string)   {}
func (silent) Warn(string)  {}
func (silent) Error(string) {}

type regRound struct {
	Reqs      [][]int  `json:"reqs"`      // per runtime: file ids required, in order
	OK        []bool   `json:"ok"`        // per file id: does it load and compile
	Counts    []int    `json:"counts"`    // per file id: SourceLoader calls for exactly that path
	Shared    bool     `json:"shared"`    // a runtime saw another runtime's module state
	Evals     []int    `json:"evals"`     // per runtime: how many module bodies it evaluated
	Expect    []int    `json:"expect"`    // per runtime: distinct loadable files it required
	Refetched []string `json:"refetched"` // package.json / main files of package directories that the SourceLoader was asked for more than once
}

func loopWorkload(r *lib.Rand, rounds int) {
	for round := 0; round < rounds; round++ {
		reg := new(require.Registry)
		reg.RegisterNativeModule(console.ModuleName, console.RequireWithPrinter(silent{}))
		loop := eventloop.NewEventLoop(eventloop.WithRegistry(reg))
		loop.Run(func(vm *goja.Runtime) { vm.RunString("var x = 0; function bump(){ x++ }") })
		var wg sync.WaitGroup
		stop := make(chan struct{})
		loop.Start()
		g := 2 + r.Intn(5)
		for k := 0; k < g; k++ {
			seed := r.U64()
			wg.Add(1)
			go func() {
				defer wg.Done()
				rr := lib.NewRand(seed)
				var timers []*eventloop.Timer
				var ivs []*eventloop.Interval
				for i := 0; i < 200; i++ {
					select {
					case <-stop:
						return
					default:
					}
					switch rr.Intn(8) {
					case 0, 1, 2:
						loop.RunOnLoop(func(vm *goja.Runtime) { vm.RunString("bump()") })
					case 3:
						if t := loop.SetTimeout(func(vm *goja.Runtime) { vm.RunString("bump(); setTimeout(bump, 0); setImmediate(bump)") }, time.Duration(rr.Intn(2))*time.Millisecond); t != nil {
							timers = append(timers, t)
						}
					case 4:
						if iv := loop.SetInterval(func(vm *goja.Runtime) { vm.RunString("bump()") }, time.Millisecond); iv != nil {
							ivs = append(ivs, iv)
						}
					case 5:
						if len(timers) > 0 {
							loop.ClearTimeout(timers[rr.Intn(len(timers))])
						}
					case 6:
						if len(ivs) > 0 {
							loop.ClearInterval(ivs[rr.Intn(len(ivs))])
						}
					default:
						if rr.Chance(10) {
							loop.StopNoWait()
						}
					}
					if rr.Chance(20) {
						time.Sleep(time.Duration(rr.Intn(200)) * time.Microsecond)
					}
				}
				for _, iv := range ivs {
					loop.ClearInterval(iv)
				}
			}()
		}
		// the controller
		for c := 0; c < 3+r.Intn(3); c++ {
			time.Sleep(time.Duration(500+r.Intn(1500)) * time.Microsecond)
			loop.Stop()
			if r.Chance(30) {
				loop.Terminate()
			}
			loop.Start()
		}
		close(stop)
		wg.Wait()
		loop.Terminate()
	}
}

func registryWorkload(r *lib.Rand, rounds int) []regRound {
	var out []regRound
	for round := 0; round < rounds; round++ {
		nfiles := 3 + r.Intn(5)
		okv := make([]bool, nfiles)
		src := map[string]string{}
		for i := range okv {
			switch r.Intn(6) {
			case 0:
				okv[i] = false // missing
			case 1:
				okv[i] = false
				src[fmt.Sprintf("/m/f%d.js", i)] = "module.exports = {;" // does not compile
			default:
				okv[i] = true
				src[fmt.Sprintf("/m/f%d.js", i)] = fmt.Sprintf("globalThis.__evals = (globalThis.__evals || 0) + 1; module.exports = {id: %d, mark: null}", i)
			}
		}
		// package directories: every runtime reaches their modules through the directory, i.e. through package.json
		ndirs := 1 + r.Intn(3)
		for d := 0; d < ndirs; d++ {
			src[fmt.Sprintf("/m/d%d/package.json", d)] = `{"main": "lib.js"}`
			src[fmt.Sprintf("/m/d%d/lib.js", d)] = fmt.Sprintf("module.exports = {dir: %d}", d)
		}
		counts := make([]int32, nfiles)
		manifestFetches := map[string]int{} // the loader's own, unsynchronised bookkeeping: the Registry serialises the fetches
		loader := func(p string) ([]byte, error) {
			for i := 0; i < nfiles; i++ {
				if p == fmt.Sprintf("/m/f%d.js", i) {
					atomic.AddInt32(&counts[i], 1)
				}
			}
			if _, exists := src[p]; exists && (strings.HasSuffix(p, "/package.json") || strings.HasSuffix(p, "/lib.js")) {
				manifestFetches[p]++ // a file that is there and is handed out; asking for a file that does not exist fetches nothing
			}
			if s, ok := src[p]; ok {
				return []byte(s), nil
			}
			return nil, require.ModuleFileDoesNotExistError
		}
		reg := require.NewRegistry(require.WithLoader(loader))
		nrt := 2 + r.Intn(6)
		rr := regRound{OK: okv}
		shared := int32(0)
		evals := make([]int, nrt)
		expect := make([]int, nrt)
		var wg sync.WaitGroup
		start := make(chan struct{})
		for k := 0; k < nrt; k++ {
			n := 1 + r.Intn(nfiles+2)
			var reqs []int
			for i := 0; i < n; i++ {
				reqs = append(reqs, r.Intn(nfiles))
			}
			rr.Reqs = append(rr.Reqs, reqs)
			seen := map[int]bool{}
			for _, f := range reqs {
				if okv[f] && !seen[f] {
					seen[f] = true
					expect[k]++
				}
			}
			wg.Add(1)
			k := k
			go func() {
				defer wg.Done()
				vm := goja.New()
				reg.Enable(vm)
				<-start
				for d := 0; d < ndirs; d++ {
					if (k+d)%2 == 0 {
						vm.RunString(fmt.Sprintf("try { require('/m/d%d') } catch (e) {}", d))
					}
				}
				for _, f := range reqs {
					v, err := vm.RunString(fmt.Sprintf("(function(){ try { var m = require('/m/f%d.js'); if (m.mark !== null && m.mark !== %d) return 'shared'; m.mark = %d; return 'ok' } catch (e) { return 'err' } })()", f, k, k))
					if err == nil && v.String() == "shared" {
						atomic.StoreInt32(&shared, 1)
					}
				}
				if v := vm.Get("__evals"); v != nil {
					evals[k] = int(v.ToInteger())
				}
			}()
		}
		close(start)
		wg.Wait()
		for i := range counts {
			rr.Counts = append(rr.Counts, int(counts[i]))
		}
		rr.Shared = shared == 1
		rr.Evals, rr.Expect = evals, expect
		for p, n := range manifestFetches {
			if n > 1 {
				rr.Refetched = append(rr.Refetched, fmt.Sprintf("%s fetched %d times by %d runtimes", p, n, nrt))
			}
		}
		out = append(out, rr)
	}
	return out
}

// nativesWorkload: library-provided module loaders registered on ONE Registry (console with a custom printer, as the README
// recommends), loaded by several runtimes on their own goroutines. Each runtime marks its own util module; what its console
// prints must carry its own mark: a loader that keeps Go-side state across invocations leaks one runtime's modules into another.
type recPrinter struct {
	mu   sync.Mutex
	msgs []string
}

func (p *recPrinter) Log(s string)   { p.mu.Lock(); p.msgs = append(p.msgs, "log "+s); p.mu.Unlock() }
func (p *recPrinter) Warn(s string)  { p.mu.Lock(); p.msgs = append(p.msgs, "warn "+s); p.mu.Unlock() }
func (p *recPrinter) Error(s string) { p.mu.Lock(); p.msgs = append(p.msgs, "error "+s); p.mu.Unlock() }

func nativesWorkload(r *lib.Rand, rounds int) []string {
	var bad []string
	for round := 0; round < rounds; round++ {
		n := 2 + r.Intn(4)
		pr := &recPrinter{}
		reg := new(require.Registry)
		reg.RegisterNativeModule(console.ModuleName, console.RequireWithPrinter(pr))
		var loaded, logged sync.WaitGroup
		loaded.Add(n)
		logged.Add(n)
		lateLoad := r.Chance(50)
		for i := 0; i < n; i++ {
			go func(i int) {
				defer logged.Done()
				vm := goja.New()
				reg.Enable(vm)
				_, err := vm.RunString(fmt.Sprintf(`var u = require('util'); var __f = u.format; u.format = function(){ return "rt%d:" + __f.apply(u, arguments) }; var c = require('console');`, i))
				loaded.Done()
				if err != nil {
					pr.mu.Lock()
					bad = append(bad, "script failed: "+err.Error())
					pr.mu.Unlock()
					return
				}
				if lateLoad {
					loaded.Wait() // every runtime has loaded console before anybody logs
				}
				vm.RunString(fmt.Sprintf(`c.log("m%%d", %d); c.warn("w"); c.error("e %%s", "x")`, i))
			}(i)
		}
		logged.Wait()
		want := map[string]int{}
		for i := 0; i < n; i++ {
			want[fmt.Sprintf("log rt%d:m%d", i, i)]++
			want[fmt.Sprintf("warn rt%d:w", i)]++
			want[fmt.Sprintf("error rt%d:e x", i)]++
		}
		got := map[string]int{}
		for _, m := range pr.msgs {
			got[m]++
		}
		for k, v := range want {
			if got[k] != v {
				bad = append(bad, fmt.Sprintf("round %d (%d runtimes): expected message %q %d time(s), seen %d; printer received %v", round, n, k, v, got[k], pr.msgs))
				break
			}
		}
	}
	return bad
}

func child() {
	seed, _ := strconv.ParseUint(os.Getenv("VERIF_CHILD_SEED"), 10, 64)
	rounds, _ := strconv.Atoi(os.Getenv("VERIF_CHILD_ROUNDS"))
	r := lib.NewRand(seed)
	if os.Getenv("VERIF_CHILD") == "loop" {
		loopWorkload(r, rounds)
		fmt.Println("RESULT {}")
		return
	}
	if os.Getenv("VERIF_CHILD") == "natives" {
		b, _ := json.Marshal(nativesWorkload(r, rounds))
		fmt.Println("RESULT " + string(b))
		return
	}
	res := registryWorkload(r, rounds)
	b, _ := json.Marshal(res)
	fmt.Println("RESULT " + string(b))
}

func runChild(kind string, seed uint64, rounds int, timeout time.Duration) (stdout, stderr string, code int, timedOut bool) {
	cmd := exec.Command(os.Args[0])
	cmd.Env = append(os.Environ(), "VERIF_CHILD="+kind, "VERIF_CHILD_SEED="+strconv.FormatUint(seed, 10), "VERIF_CHILD_ROUNDS="+strconv.Itoa(rounds),
		"GORACE=halt_on_error=1 exitcode=66")
	var so, se strings.Builder
	cmd.Stdout, cmd.Stderr = &so, &se
	if err := cmd.Start(); err != nil {
		return "", err.Error(), -1, false
	}
	done := make(chan error, 1)
	go func() { done <- cmd.Wait() }()
	select {
	case err := <-done:
		var ee *exec.ExitError
		if errors.As(err, &ee) {
			code = ee.ExitCode()
		}
	case <-time.After(timeout):
		cmd.Process.Signal(os.Interrupt)
		time.Sleep(200 * time.Millisecond)
		cmd.Process.Kill()
		<-done
		timedOut = true
	}
	return so.String(), se.String(), code, timedOut
}

func main() {
	if os.Getenv("VERIF_CHILD") != "" {
		child()
		return
	}
	outPath := os.Args[1]
	batches := 6
	if lib.Tier() == "thorough" {
		batches = 60
	}
	if len(os.Args) > 2 {
		batches, _ = strconv.Atoi(os.Args[2])
	}
	out := lib.NewOutput("C17")
	r := lib.NewRand(lib.Seed()*613 + 11)
	report := func(kind string, seed uint64, so, se string, code int, to bool) bool {
		if to {
			out.Fail(len(out.Cases), "deadlock-or-hang", map[string]interface{}{"workload": kind, "seed": seed, "stderr_tail": tail(se, 60)})
			return false
		}
		if code == 66 || strings.Contains(se, "WARNING: DATA RACE") {
			out.Fail(len(out.Cases), "data-race", map[string]interface{}{"workload": kind, "seed": seed, "report": head(se, 70)})
			return false
		}
		if code != 0 {
			out.Fail(len(out.Cases), "workload-crashed", map[string]interface{}{"workload": kind, "seed": seed, "exit": code, "stderr_tail": tail(se, 40)})
			return false
		}
		return true
	}
	for b := 0; b < batches; b++ {
		seed := r.U64()
		so, se, code, to := runChild("loop", seed, 6, 120*time.Second)
		if report("loop", seed, so, se, code, to) {
			out.Count("loop-batches", "ok")
		}
		seed = r.U64()
		so, se, code, to = runChild("natives", seed, 30, 120*time.Second)
		if report("natives", seed, so, se, code, to) {
			var bad []string
			for _, l := range strings.Split(so, "\n") {
				if strings.HasPrefix(l, "RESULT ") {
					json.Unmarshal([]byte(strings.TrimPrefix(l, "RESULT ")), &bad)
				}
			}
			if len(bad) > 0 {
				out.Fail(len(out.Cases), "module-state-shared-between-runtimes", map[string]interface{}{"workload": "natives", "seed": seed, "what": bad[0], "more": len(bad) - 1})
			}
			out.Count("natives-batches", "ok")
		}
		seed = r.U64()
		so, se, code, to = runChild("registry", seed, 40, 120*time.Second)
		if !report("registry", seed, so, se, code, to) {
			continue
		}
		var rounds []regRound
		for _, l := range strings.Split(so, "\n") {
			if strings.HasPrefix(l, "RESULT ") {
				json.Unmarshal([]byte(strings.TrimPrefix(l, "RESULT ")), &rounds)
			}
		}
		for _, rr := range rounds {
			var flat []string
			maxLen := 0
			for _, q := range rr.Reqs {
				if len(q) > maxLen {
					maxLen = len(q)
				}
			}
			for i := 0; i < maxLen; i++ { // one of the possible serialisations of the concurrent requests
				for _, q := range rr.Reqs {
					if i < len(q) {
						flat = append(flat, strconv.Itoa(q[i]))
					}
				}
			}
			var oks, cnts []string
			for _, o := range rr.OK {
				oks = append(oks, lib.Bool(o))
			}
			for _, c := range rr.Counts {
				cnts = append(cnts, strconv.Itoa(c))
			}
			evalsOK := true
			for k := range rr.Evals {
				if rr.Evals[k] != rr.Expect[k] {
					evalsOK = false
				}
			}
			coq := fmt.Sprintf("{| c_reqs := %s; c_ok := %s; c_counts := %s; c_shared := %s; c_evals_ok := %s |}", lib.List(flat), lib.List(oks), lib.List(cnts), lib.Bool(rr.Shared), lib.Bool(evalsOK))
			if len(rr.Refetched) > 0 {
				out.Fail(len(out.Cases), "source-file-fetched-more-than-once", map[string]interface{}{"files": rr.Refetched, "runtimes": len(rr.Reqs),
					"note": "every runtime requires the package directories /m/d<i> (package.json main lib.js) of one shared Registry"})
			}
			out.Add(coq, map[string]interface{}{"reqs": rr.Reqs, "ok": rr.OK, "counts": rr.Counts, "evals": rr.Evals}, len(rr.Reqs) >= 3)
			out.Count("runtimes", strconv.Itoa(len(rr.Reqs)))
		}
	}
	out.Write(outPath)
}

func head(s string, n int) string {
	l := strings.Split(s, "\n")
	if len(l) > n {
		l = l[:n]
	}
	return strings.Join(l, "\n")
}
func tail(s string, n int) string {
	l := strings.Split(s, "\n")
	if len(l) > n {
		l = l[len(l)-n:]
	}
	return strings.Join(l, "\n")
}
