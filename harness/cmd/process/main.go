// C20 harness: runs a probe in a child process with a generated environment.
// parent: process <out.json> [n]      child: process -child <opsfile>
package main

import (
	"bufio"
	"encoding/hex"
	"encoding/json"
	"fmt"
	"os"
	"os/exec"
	"sort"
	"strconv"
	"strings"

	"github.com/dop251/goja"
	"github.com/dop251/goja_nodejs/process"
	"github.com/dop251/goja_nodejs/require"

	"verif/harness/lib"
)

type op struct {
	Kind  string `json:"kind"`  // req | set | del | hostset | hostunset
	Quiet bool   `json:"quiet"` // nothing is read from any runtime after this operation
	Rt    int    `json:"rt"`
	K     string `json:"k"` // hex
	V     string `json:"v"` // hex
}

type childSpec struct {
	Runtimes int  `json:"runtimes"`
	Ops      []op `json:"ops"`
}

type snapshot struct {
	Rts  [][][2]string `json:"rts"` // per runtime: nil if process not required yet, else sorted [k,v] hex pairs
	Has  []bool        `json:"has"`
	Host []string      `json:"host"` // os.Environ() hex, sorted
}

func hx(s string) string { return hex.EncodeToString([]byte(s)) }
func unhx(s string) string {
	b, _ := hex.DecodeString(s)
	return string(b)
}

func child(specFile string) {
	data, err := os.ReadFile(specFile)
	if err != nil {
		panic(err)
	}
	var spec childSpec
	if err := json.Unmarshal(data, &spec); err != nil {
		panic(err)
	}
	vms := make([]*goja.Runtime, spec.Runtimes)
	has := make([]bool, spec.Runtimes)
	reg := new(require.Registry) // one Registry shared by all runtimes
	for i := range vms {
		vms[i] = goja.New()
		reg.Enable(vms[i])
	}
	w := bufio.NewWriter(os.Stdout)
	defer w.Flush()
	snap := func() {
		var s snapshot
		for i, vm := range vms {
			s.Has = append(s.Has, has[i])
			if !has[i] {
				s.Rts = append(s.Rts, nil)
				continue
			}
			v, err := vm.RunString(`Object.entries(require('process').env)`)
			if err != nil {
				panic(err)
			}
			var pairs [][2]string
			for _, e := range v.Export().([]interface{}) {
				kv := e.([]interface{})
				pairs = append(pairs, [2]string{hx(kv[0].(string)), hx(kv[1].(string))})
			}
			sort.Slice(pairs, func(a, b int) bool { return pairs[a][0] < pairs[b][0] })
			s.Rts = append(s.Rts, pairs)
		}
		for _, e := range os.Environ() {
			s.Host = append(s.Host, hx(e))
		}
		sort.Strings(s.Host)
		b, _ := json.Marshal(s)
		w.Write(b)
		w.WriteByte('\n')
	}
	for _, o := range spec.Ops {
		vm := vms[o.Rt]
		switch o.Kind {
		case "req":
			if (o.Rt+len(spec.Ops))%2 == 0 {
				process.Enable(vm)
			} else if _, err := vm.RunString(`require('process')`); err != nil {
				panic(err)
			}
			has[o.Rt] = true
		case "set":
			if has[o.Rt] {
				vm.Set("__k", unhx(o.K))
				vm.Set("__v", unhx(o.V))
				if _, err := vm.RunString(`require('process').env[__k] = __v`); err != nil {
					panic(err)
				}
			}
		case "del":
			if has[o.Rt] {
				vm.Set("__k", unhx(o.K))
				if _, err := vm.RunString(`delete require('process').env[__k]`); err != nil {
					panic(err)
				}
			}
		case "hostset": // the embedding program changes its own environment
			os.Setenv(unhx(o.K), unhx(o.V))
		case "hostunset":
			os.Unsetenv(unhx(o.K))
		}
		if o.Quiet {
			w.WriteString("null\n")
			continue
		}
		snap()
	}
}

var nameAlpha = []string{"A", "B", "PATH", "x", "Z_9", "a.b", "né", "K k", "名", "HOME", "_", "a-b", "Q", "LONGER_NAME_1", "é",
	// names that mean something to a JavaScript object: the environment is data, whatever the names
	"__proto__", "constructor", "toString", "hasOwnProperty", "valueOf", "length", "0", "__defineGetter__",
	// names that mean something to the host process, its run-time system or to Node: still just data in process.env
	"#hash", "export X", "TZ", "TZ", "GODEBUG", "GOMAXPROCS", "LANG", "LC_ALL", "TMPDIR", "NODE_ENV", "NODE_OPTIONS", "NODE_PATH", "PWD", "USER", "SHELL", "HOSTNAME"}
var valPieces = []string{"", "=", "==", "a", "b c", " ", "é", "日本", "x=y", "=lead", "trail=", "/usr/bin:/bin", "\t", "\"q\"", "a=b=c", "🙂", "%41", "$HOME",
	"UTC", "UTC", "Europe/London", "America/New_York", "C", "en_US.UTF-8", "production", "1", "/tmp",
	// values that a line- or shell-oriented reader would cut or re-interpret
	"\n", "line1\nGHOST=1", "dos\r", "\r\n", "# not a comment", "'single'", "\\n", "a\x00b"[:1]}

func genName(r *lib.Rand, used map[string]bool) string {
	for {
		n := r.Pick(nameAlpha)
		if r.Chance(50) {
			n += strconv.Itoa(r.Intn(50))
		}
		if r.Chance(15) {
			n += r.Pick(nameAlpha)
		}
		if !used[n] {
			used[n] = true
			return n
		}
	}
}

func genValue(r *lib.Rand) string {
	k := r.Intn(4)
	var sb strings.Builder
	for i := 0; i < k; i++ {
		sb.WriteString(r.Pick(valPieces))
	}
	return sb.String()
}

func coqOp(o op) string {
	switch o.Kind {
	case "req":
		return "RtOp (Req " + lib.Nat(o.Rt) + ")"
	case "set":
		return "RtOp (SetVar " + lib.Nat(o.Rt) + " " + lib.ZsStr(unhx(o.K)) + " " + lib.ZsStr(unhx(o.V)) + ")"
	case "hostset":
		return "HostSet " + lib.ZsStr(unhx(o.K)) + " " + lib.ZsStr(unhx(o.V))
	case "hostunset":
		return "HostUnset " + lib.ZsStr(unhx(o.K))
	default:
		return "RtOp (DelVar " + lib.Nat(o.Rt) + " " + lib.ZsStr(unhx(o.K)) + ")"
	}
}

func main() {
	if len(os.Args) >= 3 && os.Args[1] == "-child" {
		child(os.Args[2])
		return
	}
	outPath := os.Args[1]
	n := 150
	if lib.Tier() == "thorough" {
		n = 1200
	}
	if len(os.Args) > 2 {
		n, _ = strconv.Atoi(os.Args[2])
	}
	out := lib.NewOutput("C20")
	r := lib.NewRand(lib.Seed())
	self, _ := os.Executable()
	tmp, err := os.MkdirTemp("", "c20")
	if err != nil {
		panic(err)
	}
	defer os.RemoveAll(tmp)
	for c := 0; c < n; c++ {
		// environment
		nv := r.Intn(12)
		if r.Chance(10) {
			nv = 0
		}
		if r.Chance(5) {
			nv = 40 + r.Intn(60)
		}
		used := map[string]bool{}
		var env []string
		var pairs [][2]string
		special := false
		for i := 0; i < nv; i++ {
			k, v := genName(r, used), genValue(r)
			if v == "" || strings.Contains(v, "=") {
				special = true
			}
			env = append(env, k+"="+v)
			pairs = append(pairs, [2]string{k, v})
		}
		// operations
		nrt := 1 + r.Intn(3)
		var ops []op
		nops := 1 + r.Intn(8)
		if r.Chance(70) { // most histories start by requiring process everywhere
			for rt := 0; rt < nrt; rt++ {
				ops = append(ops, op{Kind: "req", Rt: rt})
			}
		}
		hostKey := func() string {
			if len(pairs) > 0 && r.Chance(70) {
				return pairs[r.Intn(len(pairs))][0]
			}
			return genName(r, map[string]bool{})
		}
		for i := 0; i < nops; i++ {
			rt := r.Intn(nrt)
			if r.Chance(22) { // the host changes its own environment; sometimes right after a require that nobody has read from yet
				if r.Chance(45) {
					ops = append(ops, op{Kind: "req", Rt: rt, Quiet: true})
				}
				if r.Chance(70) {
					ops = append(ops, op{Kind: "hostset", K: hx(hostKey()), V: hx(genValue(r)), Quiet: r.Chance(50)})
				} else {
					ops = append(ops, op{Kind: "hostunset", K: hx(hostKey()), Quiet: r.Chance(50)})
				}
				continue
			}
			// what a script's own assignment to (or delete of) the name __proto__ does to the object it acts on is JavaScript's
			// business (it addresses the prototype, not an entry), and the property claims nothing about it: scripts write and
			// delete every other name, __proto__ stays in the pool of HOST variable names (the snapshot must list it as data)
			jsKey := func(k string) string {
				if k == "__proto__" {
					return "__proto__0"
				}
				return k
			}
			switch k := r.Intn(10); {
			case k < 4:
				ops = append(ops, op{Kind: "req", Rt: rt})
			case k < 8:
				var key string
				if len(pairs) > 0 && r.Chance(60) {
					key = pairs[r.Intn(len(pairs))][0]
				} else {
					key = genName(r, map[string]bool{})
				}
				ops = append(ops, op{Kind: "set", Rt: rt, K: hx(jsKey(key)), V: hx(genValue(r))})
			default:
				var key string
				if len(pairs) > 0 && r.Chance(70) {
					key = pairs[r.Intn(len(pairs))][0]
				} else {
					key = genName(r, map[string]bool{})
				}
				ops = append(ops, op{Kind: "del", Rt: rt, K: hx(jsKey(key))})
			}
		}
		ops[len(ops)-1].Quiet = false // the history ends with a reading
		spec := childSpec{Runtimes: nrt, Ops: ops}
		sb, _ := json.Marshal(spec)
		specFile := fmt.Sprintf("%s/spec%d.json", tmp, c)
		os.WriteFile(specFile, sb, 0o644)
		cmd := exec.Command(self, "-child", specFile)
		cmd.Env = append([]string{}, env...)
		// VERIF_SEED must not leak into the generated environment: the child derives its choice from argv instead
		cmd.Stderr = os.Stderr
		res, err := cmd.Output()
		if err != nil {
			out.Fail(c, "child-crashed", map[string]interface{}{"env": env, "ops": ops, "err": err.Error()})
			out.Add("crashed", nil, false)
			continue
		}
		lines := strings.Split(strings.TrimSpace(string(res)), "\n")
		var obsCoq []string
		var hostAfter []string
		var snaps []snapshot
		for _, ln := range lines {
			if ln == "null" { // nothing was read after this operation
				obsCoq = append(obsCoq, "[]")
				continue
			}
			var s snapshot
			if err := json.Unmarshal([]byte(ln), &s); err != nil {
				panic(err)
			}
			snaps = append(snaps, s)
			var rts []string
			for i := range s.Has {
				if !s.Has[i] {
					rts = append(rts, "None")
					continue
				}
				var ps []string
				for _, kv := range s.Rts[i] {
					ps = append(ps, lib.Pair(lib.ZsStr(unhx(kv[0])), lib.ZsStr(unhx(kv[1]))))
				}
				rts = append(rts, "(Some "+lib.List(ps)+")")
			}
			obsCoq = append(obsCoq, lib.List(rts))
			hostAfter = nil
			for _, h := range s.Host {
				hostAfter = append(hostAfter, lib.ZsStr(unhx(h)))
			}
		}
		var envCoq, pairsCoq, opsCoq []string
		sortedEnv := append([]string{}, env...)
		sort.Strings(sortedEnv)
		for _, e := range env {
			envCoq = append(envCoq, lib.ZsStr(e))
		}
		var sortedEnvCoq []string
		for _, e := range sortedEnv {
			sortedEnvCoq = append(sortedEnvCoq, lib.ZsStr(e))
		}
		for _, p := range pairs {
			pairsCoq = append(pairsCoq, lib.Pair(lib.ZsStr(p[0]), lib.ZsStr(p[1])))
		}
		multi := map[int]bool{}
		mut := false
		for _, o := range ops {
			opsCoq = append(opsCoq, coqOp(o))
			multi[o.Rt] = true
			if o.Kind != "req" {
				mut = true
			}
		}
		coq := fmt.Sprintf("{| c_env := %s; c_env_sorted := %s; c_pairs := %s; c_nrt := %s; c_ops := %s; c_obs := %s; c_host_after := %s |}",
			lib.List(envCoq), lib.List(sortedEnvCoq), lib.List(pairsCoq), lib.Nat(nrt), lib.List(opsCoq), lib.List(obsCoq), lib.List(hostAfter))
		desc := map[string]interface{}{"env": env, "runtimes": nrt, "ops": descOps(ops), "final": snaps[len(snaps)-1]}
		out.Add(coq, desc, special || (len(multi) > 1 && mut))
		out.Count("env_vars", lib.SizeBucket(nv))
		out.Count("runtimes", strconv.Itoa(nrt))
		out.Count("ops", lib.SizeBucket(len(ops)))
		for _, o := range ops {
			out.Count("op_kind", o.Kind)
		}
		if special {
			out.Count("value_class", "empty-or-contains-eq")
		} else {
			out.Count("value_class", "plain")
		}
	}
	out.Notes = append(out.Notes, "child process per case; environment passed through exec; entries observed with Object.entries(require('process').env) in every runtime after every operation; os.Environ() observed after every operation")
	out.Write(outPath)
}

func descOps(ops []op) []string {
	var r []string
	for _, o := range ops {
		q := ""
		if o.Quiet {
			q = " (nothing read afterwards)"
		}
		switch o.Kind {
		case "hostset":
			r = append(r, fmt.Sprintf("host: os.Setenv(%q, %q)%s", unhx(o.K), unhx(o.V), q))
		case "hostunset":
			r = append(r, fmt.Sprintf("host: os.Unsetenv(%q)%s", unhx(o.K), q))
		case "req":
			r = append(r, fmt.Sprintf("rt%d: require('process')%s", o.Rt, q))
		case "set":
			r = append(r, fmt.Sprintf("rt%d: process.env[%q] = %q", o.Rt, unhx(o.K), unhx(o.V)))
		default:
			r = append(r, fmt.Sprintf("rt%d: delete process.env[%q]", o.Rt, unhx(o.K)))
		}
	}
	return r
}
