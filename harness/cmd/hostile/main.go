// C09 harness: every function/method/constructor/accessor the library installs, called with hostile arguments and
// receivers; each call either returns or throws a catchable JS error: no Go panic escapes, nothing spins.
package main

import (
	"fmt"
	"os"
	"sort"
	"strconv"
	"strings"
	"syscall"
	"time"

	"github.com/dop251/goja"
	"github.com/dop251/goja_nodejs/buffer"
	"github.com/dop251/goja_nodejs/console"
	"github.com/dop251/goja_nodejs/eventloop"
	"github.com/dop251/goja_nodejs/process"
	"github.com/dop251/goja_nodejs/require"
	"github.com/dop251/goja_nodejs/url"
	"github.com/dop251/goja_nodejs/util"

	"verif/harness/lib"
)

// hostile alphabet (property text); sizes between 64 MiB and 2^32 are left out so that "time bounded by the size of
// the arguments" is not confused with a hang
var hostile = []string{
	"undefined", "null", "true", "false", "0", "-0", "NaN", "Infinity", "-Infinity", "0.5", "-1.5", "1", "-1", "2", "7",
	"127", "128", "255", "256", "32767", "32768", "65535", "65536", "2147483647", "2147483648", "4294967295", "4294967296", "9007199254740991", "9007199254740992",
	"9223372036854775807", "-9223372036854775808", "18446744073709551615", "1e30", "-1e30", "-2147483649",
	"0n", "-1n", "18446744073709551616n", "123456789012345678901234567890n",
	`""`, `"a"`, `"abc"`, `"%"`, `"%zz"`, `"hex"`, `"base64"`, `"utf8"`, `"x".repeat(70000)`, `"\ud800"`, `"\udfff\ud800"`, `"http://a/b?c#d"`, `"://"`, `"a=1&b=2"`, `"é🙂"`,
	"Symbol()", "Symbol.iterator", "({})", "[]", "[1,2,3]", `["a","b"]`, "[[1,2],[3]]", `[["a"]]`, `[["a","b","c"]]`,
	"({length: -1})", "({length: 3})", "({length: Infinity})", "({length: 1e10})", "({length: NaN})", `({length: "2", 0: 300, 1: -1})`, "({length: 2.5})",
	"({valueOf: function(){ throw new Error('v') }})", "({toString: function(){ throw new Error('s') }})", "({[Symbol.toPrimitive]: function(){ throw new Error('p') }})",
	"({valueOf: function(){ return {} }, toString: function(){ return {} }})", "({valueOf: function(){ return 3 }})", "({[Symbol.toPrimitive]: function(){ return 'q' }})",
	"(function(){ var f = function(){ return {valueOf: f} }; return {valueOf: f} })()",
	"({[Symbol.iterator]: function(){ throw new Error('i') }})", "({[Symbol.iterator]: function(){ return {next: function(){ return {done:false, value:1} } } }})",
	"({[Symbol.iterator]: function(){ var n=0; return {next: function(){ return {done: n++ > 2, value:[n, n]} } } }})",
	"new Uint8Array(3)", "new Uint8Array(0)", "new Float64Array([1.5, NaN])", "new ArrayBuffer(8)", "new DataView(new ArrayBuffer(4))", "new Int16Array([1,-1])",
	"function(){}", "function(){ throw new Error('cb') }", "new Date(0)", "/re/", "new Map([[1,2]])", "new Set([1])", "new Proxy({}, {})", "new Proxy({}, {get: function(){ throw new Error('px') }})",
	"Object.create(null)", "globalThis", "arguments", "new Error('e')",
	// objects that change or lie while they are being read: a key that disappears during the walk, keys the target does not have,
	// iterators without a callable next
	"({get a(){ delete this.b; return 1 }, b: 2, c: 3})", "({get a(){ delete this.a; delete this.b; return 'x' }, b: 2})",
	"new Proxy({}, {ownKeys: function(){ return ['a'] }, getOwnPropertyDescriptor: function(){ return {enumerable: true, configurable: true, value: '1'} }})",
	"new Proxy({a: 1}, {get: function(t, k){ return k === 'a' ? undefined : t[k] }})",
	"({[Symbol.iterator]: function(){ return {} }})", "({[Symbol.iterator]: function(){ return {next: 5} }})", "[{[Symbol.iterator]: function(){ return {next: 5} }}]",
	"[{[Symbol.iterator]: function(){ return {} }}]", "({[Symbol.iterator]: function(){ return null }})", "({[Symbol.iterator]: 1})",
	"({length: 9007199254740991})", "({length: 1e12})", "({length: -9007199254740991})",
	"__buf", "__url", "__usp", "__it", "__timeout", "__interval", "__immediate", "Buffer", "URL", "URLSearchParams",
}

type silent struct{}

func (silent) Log(string)   {}
func (silent) Warn(string)  {}
func (silent) Error(string) {}

type target struct {
	path string // JS expression evaluating to the function
	recv string // JS expression for the natural receiver ("" = undefined)
	ctor bool
}

func main() {
	outPath := os.Args[1]
	n := 6000
	if lib.Tier() == "thorough" {
		n = 120000
	}
	if len(os.Args) > 2 {
		n, _ = strconv.Atoi(os.Args[2])
	}
	out := lib.NewOutput("C09")
	r := lib.NewRand(lib.Seed())

	var loop *eventloop.EventLoop
	newVM := func() *goja.Runtime {
		reg := new(require.Registry)
		reg.RegisterNativeModule(console.ModuleName, console.RequireWithPrinter(silent{}))
		loop = eventloop.NewEventLoop(eventloop.WithRegistry(reg))
		var vm *goja.Runtime
		loop.Run(func(v *goja.Runtime) { vm = v }) // returns at once: nothing scheduled; the runtime stays usable from this goroutine
		buffer.Enable(vm)
		url.Enable(vm)
		process.Enable(vm)
		vm.Set("util", require.Require(vm, util.ModuleName))
		_, err := vm.RunString(`var __buf = Buffer.from([1,2,3,4,5,6,7,8,9,10]); var __url = new URL("http://u:p@h.example:8080/a/b?x=1&y=2#f");
var __usp = new URLSearchParams("a=1&b=2&a=3"); var __it = __usp.entries();
var __timeout = setTimeout(function(){}, 1e9), __interval = setInterval(function(){}, 1e9), __immediate = setImmediate(function(){});
var arguments = (function(){ return arguments })(1, 2);
function __fresh(){ __buf = Buffer.from([1,2,3,4,5,6,7,8,9,10]); __url = new URL("http://u:p@h.example:8080/a/b?x=1&y=2#f"); __usp = new URLSearchParams("a=1&b=2&a=3"); __it = __usp.entries(); }`)
		if err != nil {
			panic(err)
		}
		return vm
	}
	vm := newVM()

	// ---- inventory: walk what the library installed ----
	inv, err := vm.RunString(`(function(){
  var out = [], seen = new Set();
  function add(path, recv, ctor){ out.push([path, recv || "", !!ctor]) }
  function walk(objExpr, obj, recv){
    Object.getOwnPropertyNames(obj).concat(Object.getOwnPropertySymbols(obj).map(function(s){ return s })).forEach(function(k){
      var d = Object.getOwnPropertyDescriptor(obj, k);
      var key = (typeof k === "symbol") ? "[" + (k === Symbol.iterator ? "Symbol.iterator" : k === Symbol.toStringTag ? "Symbol.toStringTag" : "Symbol()") + "]" : "[" + JSON.stringify(k) + "]";
      if (k === "constructor" || k === "prototype") return;
      if (d.get) add("Object.getOwnPropertyDescriptor(" + objExpr + ", " + key.slice(1,-1) + ").get", recv);
      if (d.set) add("Object.getOwnPropertyDescriptor(" + objExpr + ", " + key.slice(1,-1) + ").set", recv);
      if (typeof d.value === "function" && !seen.has(d.value)) { seen.add(d.value); add(objExpr + key, recv) }
    })
  }
  add("require", ""); add("Buffer", "", true); add("URL", "", true); add("URLSearchParams", "", true);
  walk("Buffer", Buffer, "Buffer"); walk("Buffer.prototype", Buffer.prototype, "__buf");
  walk("URL.prototype", URL.prototype, "__url"); walk("URLSearchParams.prototype", URLSearchParams.prototype, "__usp");
  walk("Object.getPrototypeOf(__it)", Object.getPrototypeOf(__it), "__it");
  walk("require('url')", require('url'), "require('url')"); walk("util", util, "util"); walk("console", console, "console");
  walk("require('process')", require('process'), "");
  ["setTimeout","setInterval","setImmediate","clearTimeout","clearInterval","clearImmediate"].forEach(function(f){ add(f, "") });
  return out })()`)
	if err != nil {
		panic(err)
	}
	var targets []target
	var names []string
	for _, e := range inv.Export().([]interface{}) {
		a := e.([]interface{})
		targets = append(targets, target{a[0].(string), a[1].(string), a[2].(bool)})
		names = append(names, a[0].(string))
	}
	sort.Strings(names)
	out.Extra["inventory"] = names
	families := map[string][]target{} // the targets of one object: console, util, Buffer.prototype, ...
	var famNames []string
	for _, t := range targets {
		f := t.path
		if i := strings.Index(f, "["); i > 0 {
			f = f[:i]
		} else if strings.Contains(f, "getOwnPropertyDescriptor(") {
			f = strings.SplitN(strings.SplitN(f, "getOwnPropertyDescriptor(", 2)[1], ",", 2)[0]
		} else {
			f = "globals"
		}
		if _, ok := families[f]; !ok {
			famNames = append(famNames, f)
		}
		families[f] = append(families[f], t)
	}
	out.Extra["families"] = famNames

	type result struct {
		kind string // ok | throw | panic
		msg  string
	}
	hangs := 0
	call := func(script string) (res result, hung bool) {
		ch := make(chan result, 1)
		go func() {
			var rr result
			func() {
				defer func() {
					if x := recover(); x != nil {
						rr = result{"panic", fmt.Sprint(x)}
					}
				}()
				v, err := vm.RunString(script)
				if err != nil {
					rr = result{"uncaught", err.Error()}
					return
				}
				rr = result{v.String(), ""}
			}()
			ch <- rr
		}()
		select {
		case rr := <-ch:
			return rr, false
		case <-time.After(4 * time.Second):
			hangs++
			return result{"hang", ""}, true
		}
	}

	receivers := []string{"", "", "", "undefined", "null", "({})", "1", `"s"`, "__buf", "__url", "__usp", "__it", "new Uint8Array(4)", "Buffer", "__timeout", "Object.create(Buffer.prototype)", "Object.create(URL.prototype)", "Object.create(URLSearchParams.prototype)",
		"({length: 9007199254740991})", "({length: 1e12})", "({length: 3, 0: 1, 1: 2, 2: 3})", "({length: -1})", "[1, 2, 3]", "new Uint16Array(new ArrayBuffer(8), 4, 2)", "new DataView(new ArrayBuffer(8), 4, 2)"}

	// ---- typed sweep: for the string-handling Buffer natives every combination of small pools of well-typed arguments
	// (sizes x strings x encoding names) in the argument shapes these functions take. Random draws from the hostile alphabet
	// almost never line up a positive size, a non-empty string that decodes to nothing and a binary encoding name.
	sizes := []string{"0", "1", "4", "7", "100"}
	strs := []string{`""`, `"a"`, `"zz"`, `"="`, `"abcd"`, `"%zz"`, `"é🙂"`, `"6162"`, `"YWJj"`, `"x".repeat(3000)`}
	encs := []string{`"hex"`, `"base64"`, `"base64url"`, `"utf8"`, `"utf-8"`, `"nope"`, "undefined"}
	var sweep [][2]string // target path, call expression
	numericRW := func(p string) bool {
		for _, pre := range []string{`["read`, `["write`} {
			if i := strings.Index(p, pre); i >= 0 && len(p) > i+len(pre) && p[i+len(pre)] >= 'A' && p[i+len(pre)] <= 'Z' {
				return true
			}
		}
		return false
	}
	for _, t := range targets {
		if !strings.HasPrefix(t.path, "Buffer") || numericRW(t.path) || strings.Contains(t.path, "getOwnPropertyDescriptor") {
			continue
		}
		recv := t.recv
		if recv == "" {
			recv = "undefined"
		}
		mk := func(args ...string) {
			if t.ctor {
				sweep = append(sweep, [2]string{t.path, "new (" + t.path + ")(" + strings.Join(args, ", ") + ")"})
			} else {
				sweep = append(sweep, [2]string{t.path, "(" + t.path + ").call(" + strings.Join(append([]string{recv}, args...), ", ") + ")"})
			}
		}
		for _, st := range strs {
			for _, e := range encs {
				mk(st, e) // from(string, enc), write(string, enc), byteLength
				for _, z := range sizes {
					mk(z, st, e) // alloc(size, fill, enc)
				}
				mk(st, "1", "2", e) // write(string, offset, length, enc)
				mk(st, "0", e)      // write(string, offset, enc)
			}
		}
		for _, e := range encs {
			mk(e, "1", "3") // toString(enc, start, end)
		}
	}
	if lib.Tier() != "thorough" && len(sweep) > 9000 {
		sweep = sweep[:9000]
	}
	// require(): every spelling class of a module name - prefixes, dot segments that eat what stands before them, empty parts,
	// trailing separators, NUL - alone and behind the node: prefix
	var reqNames []string
	for _, pre := range []string{"", "node:", "node:/", "./", "../", "/", "node:node:"} {
		for _, nm := range []string{"", ".", "..", "/..", "x/..", "x/../..", "util/..", "util/", "util", "util//", "a//b", "../..", "./.", "\u0000", "nope", "buffer/../util", "x/../../..", ":", "node:"} {
			reqNames = append(reqNames, `"`+pre+nm+`"`)
		}
	}
	for _, nm := range reqNames {
		sweep = append(sweep, [2]string{"require", "require(" + nm + ")"})
	}
	// names of things that are not regular files (the default source loader reads from the host's file system): a FIFO that
	// nobody writes to - reading it never ends, like a device that never reports end-of-file, but without filling the memory
	if dir, err := os.MkdirTemp("", "c09fifo"); err == nil {
		defer os.RemoveAll(dir)
		fifo := dir + "/pipe.js"
		if syscall.Mkfifo(fifo, 0o600) == nil {
			for _, nm := range []string{fifo, dir + "/pipe", dir} {
				sweep = append(sweep, [2]string{"require", "require(" + strconv.Quote(nm) + ")"})
			}
		}
	}
	for _, sw := range sweep {
		if hangs >= 3 {
			break
		}
		script := "__fresh(); (function(){ try { " + sw[1] + "; return 'ok' } catch (e) { return 'throw' } })()"
		lib.Breadcrumb(outPath, sw[1])
		res, hung := call(script)
		id := len(out.Cases)
		desc := map[string]interface{}{"call": sw[1], "outcome": res.kind}
		tags := []string{sw[0]}
		switch {
		case hung:
			out.Fail(id, "hang", desc, tags...)
			vm = newVM()
		case res.kind == "panic":
			desc["panic"] = res.msg
			out.Fail(id, "go-panic-escaped", desc, tags...)
			vm = newVM()
		case res.kind == "uncaught":
			desc["error"] = res.msg
			out.Fail(id, "uncatchable-error", desc, tags...)
		}
		out.Add("crashed", desc, true, tags...)
		out.Count("family", "typed-sweep")
		out.Count("outcome", res.kind)
	}
	// ---- tampering: a script replaces or deletes what one module exports before (or after) another module that depends on it is
	// loaded, in a runtime where nothing was loaded beforehand (a bare Registry.Enable: no event loop, no console.Enable)
	tamperVals := []string{"undefined", "null", "1", `"s"`, "({})", "[]", "function(){ throw new Error('t') }", "function(){ return {toString: function(){ throw new Error('ts') }} }",
		"function(){ return Symbol() }", "Symbol()", "new Proxy(function(){}, {apply: function(){ throw new Error('px') }})"}
	tamperScripts := []string{
		`var u = require('util'); u.format = @V@; var c = require('console'); c.log('x %s', 1); c.error('y'); c.warn(); c.info({}); c.debug(1, 2)`,
		`var u = require('util'); delete u.format; var c = require('console'); c.log('x'); c.warn('y %d', 2)`,
		`var c = require('console'); var u = require('util'); u.format = @V@; c.log('x %s', 1); delete u.format; c.error('y')`,
		`var u = require('node:util'); u.format = @V@; require('node:console').log('z')`,
		`var m = require('url'); m.URL = @V@; m.URLSearchParams = @V@; new URL('http://a/b?c=d').searchParams.sort(); new URLSearchParams('a=1').toString()`,
		`var b = require('buffer'); b.Buffer = @V@; Buffer.from('a').toString('hex'); require('buffer').Buffer`,
		`var p = require('process'); p.env = @V@; require('process').env; Object.keys(require('process'))`,
		`Object.defineProperty(require('util'), 'format', {get: function(){ throw new Error('g') }}); require('console').log('x')`,
		`var u = require('util'); Object.freeze(u); u.format = @V@; require('console').log('%j', {a: 1})`,
	}
	for _, ts := range tamperScripts {
		for _, tv := range tamperVals {
			body := strings.ReplaceAll(ts, "@V@", tv)
			bare := goja.New()
			new(require.Registry).Enable(bare)
			script := "(function(){ try { " + body + "; return 'ok' } catch (e) { return 'throw' } })()"
			lib.Breadcrumb(outPath, body)
			ch := make(chan result, 1)
			go func() {
				var rr result
				func() {
					defer func() {
						if x := recover(); x != nil {
							rr = result{"panic", fmt.Sprint(x)}
						}
					}()
					v, err := bare.RunString(script)
					if err != nil {
						rr = result{"uncaught", err.Error()}
						return
					}
					rr = result{v.String(), ""}
				}()
				ch <- rr
			}()
			var res result
			select {
			case res = <-ch:
			case <-time.After(4 * time.Second):
				res = result{"hang", ""}
				hangs++
			}
			id := len(out.Cases)
			desc := map[string]interface{}{"call": body, "outcome": res.kind, "runtime": "bare Registry.Enable"}
			tags := []string{"tamper"}
			switch res.kind {
			case "hang":
				out.Fail(id, "hang", desc, tags...)
			case "panic":
				desc["panic"] = res.msg
				out.Fail(id, "go-panic-escaped", desc, tags...)
			case "uncaught":
				desc["error"] = res.msg
				out.Fail(id, "uncatchable-error", desc, tags...)
			}
			out.Add("crashed", desc, true, tags...)
			out.Count("family", "tamper")
			out.Count("outcome", res.kind)
			if !strings.Contains(ts, "@V@") {
				break
			}
		}
	}

	for c := 0; c < n; c++ {
		if hangs >= 3 {
			out.Notes = append(out.Notes, "stopped early: 3 calls hung")
			break
		}
		if c%12 == 11 { // callbacks that re-enter the library and change the object being traversed
			src := r.Pick([]string{"__usp", "__url.searchParams", `new URLSearchParams("a=1&b=2&c=3&a=4&d=5")`, `new URL("http://h/?x=1&y=2&x=3&z=4").searchParams`})
			muts := []string{"p.delete(k)", `p.delete("a")`, `p.delete("x")`, `p.set(k, "n")`, `p.set("a", "1")`, `p.set("x", "1")`, "p.sort()", `p.append("q", "1")`,
				`__url.search = ""`, `__url.search = "only=1"`, `__url.href = "http://other/?z=1"`, "throw 1", `p.forEach(function(){ p.delete("b") })`, `Array.from(p)`, `p.toString()`}
			mut := r.Pick(muts)
			if r.Chance(40) {
				mut += "; " + r.Pick(muts)
			}
			var body string
			switch r.Intn(3) {
			case 0:
				body = "p.forEach(function(v, k, o){ " + mut + " })"
			case 1:
				body = "for (var e of p) { var k = e[0]; " + mut + " }"
			default:
				body = "var it = p.keys(), x; while (!(x = it.next()).done) { var k = x.value; " + mut + " }"
			}
			callExpr := "var p = " + src + "; var n = 0; " + strings.Replace(body, "{ ", "{ if (++n > 50) throw 0; ", 1)
			script := "__fresh(); (function(){ try { " + callExpr + "; return 'ok' } catch (e) { return 'throw' } })()"
			lib.Breadcrumb(outPath, callExpr)
			res, hung := call(script)
			id := len(out.Cases)
			desc := map[string]interface{}{"call": callExpr, "outcome": res.kind}
			tags := []string{"reentrant-callback"}
			switch {
			case hung:
				hangs++
				out.Fail(id, "hang", desc, tags...)
				vm = newVM()
			case res.kind == "panic":
				desc["panic"] = res.msg
				out.Fail(id, "go-panic-escaped", desc, tags...)
				vm = newVM()
			case res.kind == "uncaught":
				desc["error"] = res.msg
				out.Fail(id, "uncatchable-error", desc, tags...)
			}
			out.Add("crashed", desc, true, tags...)
			out.Count("family", "reentrant-callback")
			continue
		}
		if c%12 == 4 { // a function of the library handed to a built-in that calls it back and USES what it returns
			f := targets[r.Intn(len(targets))]
			fn := f.path
			if f.recv != "" && r.Chance(50) {
				fn = "(" + f.path + ").bind(" + f.recv + ")"
			}
			callExpr := "var F = " + fn + "; " + r.Pick([]string{
				"[1, 2, 3].reduce(F)", "[1, 2, 3].reduceRight(F)", "[1, 2].some(F)", "[1, 2].find(F)", "[3, 1, 2].sort(F)", "[1, 2].map(F).join()", "[1, 2].filter(F)",
				"'abc'.replace('b', F)", "'abcb'.replace(/b/g, F)", "Array.from([1, 2], F)", "new Map([[1, 2]]).forEach(F)", "JSON.parse('{\"a\":1}', F)",
				"Promise.resolve('a').then(F).then(function(x){ return String(x) }); Promise.resolve('b').then(F)", "Promise.reject(1).catch(F).then(F)",
				"String({toString: F})", "Number({valueOf: F})", "[F, F].join()"})
			script := "__fresh(); (function(){ try { " + callExpr + "; return 'ok' } catch (e) { return 'throw' } })()"
			lib.Breadcrumb(outPath, callExpr)
			res, hung := call(script)
			id := len(out.Cases)
			desc := map[string]interface{}{"call": callExpr, "outcome": res.kind}
			tags := []string{"library-function-as-callback", f.path}
			switch {
			case hung:
				out.Fail(id, "hang", desc, tags...)
				vm = newVM()
			case res.kind == "panic":
				desc["panic"] = res.msg
				out.Fail(id, "go-panic-escaped", desc, tags...)
				vm = newVM()
			case res.kind == "uncaught":
				desc["error"] = res.msg
				out.Fail(id, "uncatchable-error", desc, tags...)
			}
			out.Add("crashed", desc, true, tags...)
			out.Count("family", "library-function-as-callback")
			out.Count("outcome", res.kind)
			continue
		}
		if c%12 == 10 { // objects whose conversion hook IS a function of the library (no user-written function anywhere in the chain)
			f := targets[r.Intn(len(targets))]
			g := f
			if r.Chance(35) {
				g = targets[r.Intn(len(targets))]
			}
			base := r.Pick([]string{"{}", "{}", "[]", `new String("x")`, "Object.create(Buffer.prototype)", "Object.create(URLSearchParams.prototype)", "Object.create(URL.prototype)", "new Uint8Array(2)", "function(){}"})
			hook := r.Pick([]string{"o.toString = G", "o.valueOf = G; o.toString = undefined", "o[Symbol.toPrimitive] = G", "o.toString = G; o.valueOf = G", "o[0] = o; o.toString = G", "o.toJSON = G; o.toString = G"})
			setup := "var F = " + f.path + ", G = " + g.path + "; var o = " + base + "; " + hook + "; "
			nargs := r.Intn(3)
			var args []string
			for i := 0; i < nargs; i++ {
				if r.Chance(50) {
					args = append(args, "o")
				} else {
					args = append(args, r.Pick([]string{"0", "1", `"a"`, `"utf8"`, "__buf", "undefined"}))
				}
			}
			recv := "o"
			if r.Chance(40) && f.recv != "" {
				recv = f.recv
				if len(args) == 0 {
					args = []string{"o"}
				} else {
					args[r.Intn(len(args))] = "o"
				}
			}
			var callExpr string
			if f.ctor && r.Chance(60) {
				callExpr = setup + "new F(" + strings.Join(append([]string{"o"}, args...), ", ") + ")"
			} else {
				callExpr = setup + "F.call(" + strings.Join(append([]string{recv}, args...), ", ") + ")"
			}
			script := "__fresh(); (function(){ try { " + callExpr + "; return 'ok' } catch (e) { return 'throw' } })()"
			lib.Breadcrumb(outPath, callExpr)
			res, hung := call(script)
			id := len(out.Cases)
			desc := map[string]interface{}{"call": callExpr, "outcome": res.kind}
			tags := []string{"self-bound-conversion", f.path}
			switch {
			case hung:
				out.Fail(id, "hang", desc, tags...)
				vm = newVM()
			case res.kind == "panic":
				desc["panic"] = res.msg
				out.Fail(id, "go-panic-escaped", desc, tags...)
				vm = newVM()
			case res.kind == "uncaught":
				desc["error"] = res.msg
				out.Fail(id, "uncatchable-error", desc, tags...)
			}
			out.Add("crashed", desc, true, tags...)
			out.Count("family", "self-bound-conversion")
			out.Count("outcome", res.kind)
			continue
		}
		if c%12 == 8 || c%12 == 2 { // arguments whose conversion re-enters the library and changes the very object the call is working on
			muts := []string{`__usp.delete("a")`, `__usp.delete("b")`, `__usp.delete("a"); __usp.delete("c")`, `__usp.delete("a"); __usp.delete("b"); __usp.delete("c")`,
				`__usp.append("n", "1")`, `__usp.set("a", "9")`, `__usp.sort()`, `__url.search = ""`, `__url.search = "only=1"`, `__url.href = "http://other/?z=1"`,
				`__url.searchParams.delete("x")`, `__url.searchParams.append("q", "1"); __url.searchParams.sort()`, `__url.hash = "h"; __url.port = "1"`, `__buf.fill(0)`, `__fresh()`}
			ret := []string{`"a"`, `"b"`, `"c"`, `"x"`, `"y"`, `"1"`, `"http://z/?x=1&y=2"`, `"80"`, `"ftp"`, `"h:1"`, `0`, `2`}
			mk := func() string {
				m, rv := r.Pick(muts), r.Pick(ret)
				if r.Chance(20) {
					m += "; " + r.Pick(muts)
				}
				switch r.Intn(3) {
				case 0:
					return "({toString: function(){ " + m + "; return " + rv + " }})"
				case 1:
					return "({valueOf: function(){ " + m + "; return " + rv + " }, toString: undefined})"
				default:
					return "({[Symbol.toPrimitive]: function(){ " + m + "; return " + rv + " }})"
				}
			}
			fams := []string{"URLSearchParams.prototype", "URLSearchParams.prototype", "URL.prototype", "Buffer.prototype", "Object.getPrototypeOf(__it)"}
			fam := families[fams[r.Intn(len(fams))]]
			t := fam[r.Intn(len(fam))]
			recv := t.recv
			if recv == "__usp" && r.Chance(40) {
				recv = "__url.searchParams"
			}
			nargs := 1 + r.Intn(3)
			var args []string
			for i := 0; i < nargs; i++ {
				switch {
				case i == 0 && strings.HasPrefix(t.path, "URLSearchParams") && r.Chance(60):
					args = append(args, r.Pick([]string{`"a"`, `"b"`, `"c"`, `"x"`})) // a name at the front, in the middle, at the end, absent
				case r.Chance(70):
					args = append(args, mk())
				default:
					args = append(args, r.Pick(ret))
				}
			}
			callExpr := "(" + t.path + ").call(" + strings.Join(append([]string{recv}, args...), ", ") + ")"
			// the lists are longer here, so that a name can sit behind entries the conversion removes
			script := `__fresh(); __usp = new URLSearchParams("a=1&b=2&a=3&c=4&b=5"); __url = new URL("http://u:p@h.example:8080/a/b?x=1&y=2&x=3&z=4#f"); (function(){ try { ` + callExpr + `; return 'ok' } catch (e) { return 'throw' } })()`
			lib.Breadcrumb(outPath, callExpr)
			res, hung := call(script)
			id := len(out.Cases)
			desc := map[string]interface{}{"call": callExpr, "outcome": res.kind, "receiver_before": `__usp = "a=1&b=2&a=3&c=4&b=5", __url = "http://u:p@h.example:8080/a/b?x=1&y=2&x=3&z=4#f"`}
			tags := []string{"reentrant-argument", t.path}
			switch {
			case hung:
				out.Fail(id, "hang", desc, tags...)
				vm = newVM()
			case res.kind == "panic":
				desc["panic"] = res.msg
				out.Fail(id, "go-panic-escaped", desc, tags...)
				vm = newVM()
			case res.kind == "uncaught":
				desc["error"] = res.msg
				out.Fail(id, "uncatchable-error", desc, tags...)
			}
			out.Add("crashed", desc, true, tags...)
			out.Count("family", "reentrant-argument")
			out.Count("outcome", res.kind)
			continue
		}
		if c%12 == 5 { // sequences: several methods of one object in a row, in random order (state one call leaves behind meets the next)
			fam := families[famNames[r.Intn(len(famNames))]]
			k := 2 + r.Intn(5)
			var sb strings.Builder
			var calls []string
			for i := 0; i < k; i++ {
				t := fam[r.Intn(len(fam))]
				if t.ctor {
					continue
				}
				nargs := r.Intn(3)
				var args []string
				for j := 0; j < nargs; j++ {
					a := r.Pick(hostile)
					if strings.Contains(t.path, `"alloc"`) && (a == "2147483647" || a == "2147483648" || a == "4294967295") {
						a = "67108864"
					}
					args = append(args, a)
				}
				recv := t.recv
				if recv == "" {
					recv = "undefined"
				}
				ce := "(" + t.path + ").call(" + strings.Join(append([]string{recv}, args...), ", ") + ")"
				calls = append(calls, ce)
				sb.WriteString("try { " + ce + " } catch (e) {} ")
			}
			callExpr := strings.Join(calls, "; ")
			script := "__fresh(); (function(){ " + sb.String() + "return 'ok' })()"
			lib.Breadcrumb(outPath, callExpr)
			res, hung := call(script)
			id := len(out.Cases)
			desc := map[string]interface{}{"call": callExpr, "outcome": res.kind, "note": "each call in its own try/catch; the runtime (and the state earlier cases left in it) is kept until a failure"}
			tags := []string{"method-sequence"}
			switch {
			case hung:
				out.Fail(id, "hang", desc, tags...)
				vm = newVM()
			case res.kind == "panic":
				desc["panic"] = res.msg
				out.Fail(id, "go-panic-escaped", desc, tags...)
				vm = newVM()
			case res.kind == "uncaught":
				desc["error"] = res.msg
				out.Fail(id, "uncatchable-error", desc, tags...)
			}
			out.Add("crashed", desc, true, tags...)
			out.Count("family", "method-sequence")
			out.Count("outcome", res.kind)
			continue
		}
		t := targets[c%len(targets)]
		nargs := r.Intn(5)
		var args []string
		for i := 0; i < nargs; i++ {
			a := r.Pick(hostile)
			if i == 0 && strings.Contains(t.path, `"alloc"`) && (a == "2147483647" || a == "2147483648" || a == "4294967295") {
				a = "67108864" // size-like arguments are capped at 64 MiB: allocation time is proportional to the size by design
			}
			args = append(args, a)
		}
		recv := t.recv
		foreign := false
		if k := r.Intn(len(receivers)); receivers[k] != "" && r.Chance(35) {
			recv = receivers[k]
			foreign = true
		}
		if recv == "" {
			recv = "undefined"
		}
		var callExpr string
		if t.ctor && r.Chance(70) {
			callExpr = "new (" + t.path + ")(" + strings.Join(args, ", ") + ")"
		} else {
			callExpr = "(" + t.path + ").call(" + strings.Join(append([]string{recv}, args...), ", ") + ")"
		}
		// catchable = the script's own try/catch sees it
		script := "__fresh(); (function(){ try { " + callExpr + "; return 'ok' } catch (e) { return 'throw' } })()"
		lib.Breadcrumb(outPath, callExpr)
		res, hung := call(script)
		id := len(out.Cases)
		desc := map[string]interface{}{"call": callExpr, "outcome": res.kind}
		tags := []string{t.path}
		switch {
		case hung:
			out.Fail(id, "hang", desc, tags...)
			vm = newVM()
		case res.kind == "panic":
			desc["panic"] = res.msg
			out.Fail(id, "go-panic-escaped", desc, tags...)
			vm = newVM()
		case res.kind == "uncaught":
			desc["error"] = res.msg
			out.Fail(id, "uncatchable-error", desc, tags...)
		}
		hostileArg := nargs > 0 || foreign
		out.Add("crashed", desc, hostileArg, tags...) // no Coq evaluation per call: the theorems are about the generated VCs
		out.Count("outcome", res.kind)
		out.Count("args", strconv.Itoa(nargs))
		if foreign {
			out.Count("receiver", "foreign")
		} else {
			out.Count("receiver", "natural")
		}
	}
	out.Extra["targets"] = len(targets)
	out.Notes = append(out.Notes, "each call runs inside try/catch in the script, under recover() and a 4 s watchdog in the harness; sizes between 64 MiB and 2^32 are excluded")
	out.Write(outPath)
}
