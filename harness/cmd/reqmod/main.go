// C01 / C02 / C15 harness: require() over virtual file trees, module programs with cycles and throws, native/core names.
// usage: reqmod <out.json> [n]   with VERIF_PROFILE = cache | resolve | native
package main

import (
	"errors"
	"fmt"
	"os"
	"path/filepath"
	"sort"
	"strconv"
	"strings"

	"github.com/dop251/goja"
	"github.com/dop251/goja_nodejs/require"

	_ "github.com/dop251/goja_nodejs/buffer"
	_ "github.com/dop251/goja_nodejs/console"
	_ "github.com/dop251/goja_nodejs/process"
	_ "github.com/dop251/goja_nodejs/url"
	_ "github.com/dop251/goja_nodejs/util"

	"verif/harness/lib"
)

type instr struct {
	op    string // bump | set | req | throw | lazy | call
	k, v  int
	req   string
	catch bool
}

type fentry struct {
	kind  string // js | json | pkg | raw | err
	prog  []instr
	valid bool
	v     int
	main  string // pkg: "" = none
}

func coqInstr(i instr) string {
	switch i.op {
	case "bump":
		return "IBump"
	case "set":
		return fmt.Sprintf("ISet %d%%nat %d%%nat", i.k, i.v)
	case "req":
		return fmt.Sprintf("IReq %s %s", lib.ZsStr(i.req), lib.Bool(i.catch))
	case "lazy":
		return "ILazy " + lib.ZsStr(i.req)
	case "call":
		return "ICall " + lib.ZsStr(i.req)
	default:
		return fmt.Sprintf("IThrow %d%%nat", i.k)
	}
}

func coqEntry(e fentry) string {
	switch e.kind {
	case "js":
		var is []string
		for _, i := range e.prog {
			is = append(is, coqInstr(i))
		}
		return "FJs " + lib.List(is)
	case "json":
		return fmt.Sprintf("FJson %s %d%%nat", lib.Bool(e.valid), e.v)
	case "pkg":
		if e.main == "" {
			return "FPkg None"
		}
		return "FPkg (Some " + lib.ZsStr(e.main) + ")"
	case "raw":
		return "FRaw"
	}
	return "FErr"
}

func jsq(s string) string { return strconv.Quote(s) }

// the call must be made by code of the requiring file itself: require() takes its base directory from the caller's source name
func reqJS(who, name string, catch bool) string {
	return fmt.Sprintf("(function(){ var r; try { r = require(%s) } catch (e) { __log.push([%s, %s, __err(e)]); if (!%v) throw e; return } __log.push([%s, %s, __ok(r)]) })();\n",
		jsq(name), who, jsq(name), catch, who, jsq(name))
}

func render(path string, e fentry, pkgText map[string]string) []byte {
	switch e.kind {
	case "js":
		var sb strings.Builder
		sb.WriteString("exports.__file = __filename;\n")
		for _, i := range e.prog {
			switch i.op {
			case "bump":
				sb.WriteString("__bump(__filename);\n")
			case "set":
				fmt.Fprintf(&sb, "exports.k%d = %d;\n", i.k, i.v)
			case "req":
				sb.WriteString(reqJS("__filename", i.req, i.catch))
			case "lazy": // a function defined HERE that requires when somebody calls it: the request belongs to this file
				sb.WriteString("(exports.__lz = exports.__lz || []).push(function(){ " + strings.TrimSpace(reqJS("__filename", i.req, true)) + " });\n")
			case "call":
				fmt.Fprintf(&sb, "(function(){ var t; try { t = require(%s) } catch (e) { __log.push([__filename, %s, __err(e)]); return } __log.push([__filename, %s, __ok(t)]); (t && t.__lz || []).slice().forEach(function(f){ f() }) })();\n",
					jsq(i.req), jsq(i.req), jsq(i.req))
			case "throw":
				fmt.Fprintf(&sb, "__throws.push([__filename, %d, __log.length]); throw __thrown(%d);\n", i.k, i.k)
			}
		}
		sb.WriteString("__done[__filename] = (__done[__filename] || 0) + 1;\n") // reached only by a body that runs to its end
		return []byte(sb.String())
	case "json":
		if e.valid {
			return []byte(fmt.Sprintf(`{"k0": %d, "__file": %s}`, e.v, jsq(path)))
		}
		return []byte(`{"k0": 1,, }`)
	case "pkg":
		return []byte(pkgText[path])
	case "raw":
		return []byte("this is not a module")
	}
	return nil
}

const prelude = `var __count = {}, __log = [], __ids = new Map(), __thrownObjs = {}, __throws = [], __done = {};
function __bump(f){ __count[f] = (__count[f]||0) + 1 }
function __id(o){ if (!__ids.has(o)) __ids.set(o, __ids.size); return __ids.get(o) }
function __keys(o){ return Object.keys(o).filter(function(k){ return /^k\d+$/.test(k) }).map(function(k){ return [parseInt(k.slice(1)), o[k]] }) }
function __thrown(t){ var o = {__tag: t}; __thrownObjs[t] = o; return o }
function __err(e){
  if (e && typeof e === "object" && e.__tag !== undefined) return ["thrown", e.__tag, __thrownObjs[e.__tag] === e];
  if (e instanceof SyntaxError) return ["syntax"];
  var s = String(e && e.message !== undefined ? e.message : e);
  if (s.indexOf("Invalid module") >= 0) return ["invalid"];
  if (s.indexOf("No such built-in module") >= 0) return ["nobuiltin"];
  return ["ioerr", s];
}
function __ok(r){ return ["ok", __id(r), __keys(r), (r && r.__file) || "", (r && r.__kind) || "", (r && r.__file && __count[r.__file]) || 0] }
`

var errIO = errors.New("simulated I/O failure")

func main() {
	outPath := os.Args[1]
	profile := os.Getenv("VERIF_PROFILE")
	if profile == "" {
		profile = "cache"
	}
	n := 400
	if lib.Tier() == "thorough" {
		n = 6000
	}
	if len(os.Args) > 2 {
		n, _ = strconv.Atoi(os.Args[2])
	}
	prop := map[string]string{"cache": "C01", "resolve": "C02", "native": "C15"}[profile]
	out := lib.NewOutput(prop)
	r := lib.NewRand(lib.Seed())

	// process-wide registrations (the global tables cannot be unregistered)
	kinds := map[string]int{}
	mkLoader := func(kind, name string) require.ModuleLoader {
		return func(vm *goja.Runtime, module *goja.Object) {
			kinds[kind+":"+name]++
			module.Get("exports").(*goja.Object).Set("__kind", kind+":"+name)
		}
	}
	globals := []string{"gnat", "shared", "dir/gsub"}
	for _, g := range globals {
		require.RegisterNativeModule(g, mkLoader("global", g))
	}
	cores := []string{"buffer", "console", "process", "url", "util", "xcore", "node:xonly", "shared2", "cyca", "cycb", "selfy", "flaky"}
	// a loader that fails: it panics with a JavaScript value every time it runs (it must run at most once per runtime)
	require.RegisterCoreModule("flaky", func(vm *goja.Runtime, module *goja.Object) {
		kinds["core:flaky"]++
		module.Get("exports").(*goja.Object).Set("__kind", "core:flaky")
		v, err := vm.RunString("__thrown(77)")
		if err != nil {
			panic(err)
		}
		panic(v)
	})
	for _, c := range []string{"xcore", "node:xonly", "shared2"} {
		require.RegisterCoreModule(c, mkLoader("core", c))
	}
	// re-entrant loaders: Go loaders that call require() themselves, across the two spellings of a core name
	loaderReqs := map[string][]string{"cyca": {"cycb"}, "cycb": {"node:cyca", "cyca"}, "selfy": {"node:selfy", "util"}}
	for _, c := range []string{"cyca", "cycb", "selfy"} {
		name := c
		inner := mkLoader("core", name)
		require.RegisterCoreModule(name, func(vm *goja.Runtime, module *goja.Object) {
			inner(vm, module)
			for _, q := range loaderReqs[name] {
				prg, err := goja.Compile("__native__.js", reqJS(`"__native__.js"`, q, true), false)
				if err != nil {
					panic(err)
				}
				if _, err := vm.RunProgram(prg); err != nil {
					panic(err)
				}
			}
		})
	}

	var lrRows []string
	for _, c := range []string{"cyca", "cycb", "selfy"} {
		var qs []string
		for _, q := range loaderReqs[c] {
			qs = append(qs, lib.ZsStr(q))
		}
		lrRows = append(lrRows, lib.Pair(lib.ZsStr(c), lib.List(qs)))
	}
	loaderReqsCoq := lib.List(lrRows)
	for c := 0; c < n; c++ {
		files := map[string]fentry{}
		pkgText := map[string]string{}
		var calls [][3]string // kind(js|go), script dir / "", request
		var regNat []string
		scriptDir := "/vr/app"
		relativeScripts := false

		jsmod := func(prog ...instr) fentry { return fentry{kind: "js", prog: prog} }
		switch profile {
		case "cache":
			names := []string{"a", "b", "c", "d"}
			k := 2 + r.Intn(3)
			names = names[:k]
			if r.Chance(45) { // a package directory whose "main" names the file, and an index directory, take part in the graph
				names = append(names, "pk")
			}
			if r.Chance(30) {
				names = append(names, "ix")
			}
			pdMain, pdRootIndex := "", false
			if r.Chance(40) { // a package whose "main" names a DIRECTORY: the module is that directory's index.js
				names = append(names, "pd")
				pdMain = r.Pick([]string{"lib", "./lib", "lib/", "."})
				pdRootIndex = pdMain != "." && r.Chance(50)
			}
			spell := func(target string) string {
				if target == "pd" {
					if pdMain == "." {
						return r.Pick([]string{"./pd", "/vr/app/pd", "./pd/index.js", "./pd/index", "./x/../pd", "../app/pd"})
					}
					return r.Pick([]string{"./pd", "/vr/app/pd", "./pd/lib/index.js", "./pd/lib", "./pd/lib/index", "./x/../pd", "../app/pd", "/vr/app/pd/lib"})
				}
				if target == "pk" {
					return r.Pick([]string{"./pk", "/vr/app/pk", "./pk/main.js", "./pk/main", "./x/../pk", "../app/pk", "/vr/app/pk/main.js"})
				}
				if target == "ix" {
					return r.Pick([]string{"./ix", "/vr/app/ix", "./ix/index.js", "./ix/index", "./x/../ix"})
				}
				switch r.Intn(7) {
				case 0:
					return "./" + target
				case 1:
					return "./" + target + ".js"
				case 2:
					return "./x/../" + target
				case 3:
					return "/vr/app/" + target
				case 4:
					return "/vr/app/" + target + ".js"
				case 5:
					return "././" + target
				default:
					return "../app/" + target
				}
			}
			// a cycle that closes and an outer module that throws only afterwards: the members that completed stay cached with the
			// exports they handed out, the one that threw is evaluated afresh (the later calls require all of them again)
			forced := map[string][]instr{}
			if len(names) >= 2 && r.Chance(25) {
				i1 := r.Intn(len(names))
				i2 := (i1 + 1 + r.Intn(len(names)-1)) % len(names)
				a, b := names[i1], names[i2]
				pa := []instr{{op: "bump"}, {op: "set", k: 0, v: 1 + r.Intn(8)}, {op: "req", req: spell(b)}}
				if r.Chance(50) {
					pa = append(pa, instr{op: "set", k: 1, v: r.Intn(9)})
				}
				pa = append(pa, instr{op: "throw", k: r.Intn(5)})
				pb := []instr{{op: "bump"}, {op: "req", req: spell(a), catch: r.Chance(30)}, {op: "set", k: 2, v: r.Intn(9)}}
				if len(names) >= 3 && r.Chance(40) { // a longer cycle: a -> b -> c -> a
					c := names[(i2+1)%len(names)]
					if c != a && c != b {
						pb = []instr{{op: "bump"}, {op: "req", req: spell(c)}, {op: "set", k: 2, v: r.Intn(9)}}
						forced[c] = []instr{{op: "bump"}, {op: "req", req: spell(a)}, {op: "set", k: 1, v: r.Intn(9)}}
					}
				}
				forced[a], forced[b] = pa, pb
				out.Count("scenario", "cycle-closes-then-outer-throws")
			}
			for _, nm := range names {
				var prog []instr
				prog = append(prog, instr{op: "bump"})
				steps := 1 + r.Intn(4)
				for s := 0; s < steps; s++ {
					switch x := r.Intn(10); {
					case x < 3:
						prog = append(prog, instr{op: "set", k: r.Intn(3), v: r.Intn(9)})
					case x < 8:
						prog = append(prog, instr{op: "req", req: spell(names[r.Intn(len(names))]), catch: r.Chance(35)})
					case x < 9:
						if r.Chance(40) {
							prog = append(prog, instr{op: "throw", k: r.Intn(5)})
						}
					default:
						prog = append(prog, instr{op: "req", req: r.Pick([]string{"./e.json", "./e", "./nope", "./dirm", "lib", "./bad.json", "./oi", "./dirm/index"}), catch: r.Chance(50)})
					}
				}
				if fp, ok := forced[nm]; ok {
					prog = fp
				}
				switch nm {
				case "pk":
					files["/vr/app/pk/main.js"] = jsmod(prog...)
					files["/vr/app/pk/package.json"] = fentry{kind: "pkg", main: "main.js"}
					pkgText["/vr/app/pk/package.json"] = `{"main": "main.js"}`
				case "ix":
					files["/vr/app/ix/index.js"] = jsmod(prog...)
				case "pd":
					pp := "/vr/app/pd/package.json"
					files[pp], pkgText[pp] = fentry{kind: "pkg", main: pdMain}, fmt.Sprintf(`{"main": %s}`, jsq(pdMain))
					if pdMain == "." {
						files["/vr/app/pd/index.js"] = jsmod(prog...)
					} else {
						files["/vr/app/pd/lib/index.js"] = jsmod(prog...)
						if pdRootIndex { // never selected: the main directory has an index
							files["/vr/app/pd/index.js"] = jsmod(instr{op: "bump"}, instr{op: "set", k: 2, v: 8})
						}
					}
				default:
					files["/vr/app/"+nm+".js"] = jsmod(prog...)
				}
			}
			// siblings that differ only in the suffix the probing adds (a.js next to a.json, b next to b.js): the one with the lower
			// priority is sometimes required first, by its full name
			var sibReqs []string
			if r.Chance(40) {
				files["/vr/app/a.json"] = fentry{kind: "json", valid: true, v: 5}
				sibReqs = append(sibReqs, "./a.json", "/vr/app/a.json")
			}
			if r.Chance(25) {
				files["/vr/app/b.js.js"] = jsmod(instr{op: "bump"}, instr{op: "set", k: 0, v: 3})
				sibReqs = append(sibReqs, "./b.js.js")
			}
			files["/vr/app/e.json"] = fentry{kind: "json", valid: true, v: 7}
			if r.Chance(50) {
				files["/vr/app/bad.json"] = fentry{kind: "json", valid: false}
			}
			files["/vr/app/dirm/index.js"] = jsmod(instr{op: "bump"}, instr{op: "set", k: 1, v: 1})
			// files literally named "index", without an extension: a directory is loaded as index.js, then index.json - never as
			// "index" (only the request "<dir>/index" itself reaches that file)
			if r.Chance(25) {
				files["/vr/app/dirm/index"] = jsmod(instr{op: "bump"}, instr{op: "set", k: 1, v: 6})
				out.Count("scenario", "extensionless-index-next-to-index.js")
			}
			if _, ok := files["/vr/app/ix/index.js"]; ok && r.Chance(30) {
				files["/vr/app/ix/index"] = jsmod(instr{op: "bump"}, instr{op: "set", k: 2, v: 6})
				out.Count("scenario", "extensionless-index-next-to-index.js")
			}
			if r.Chance(25) {
				files["/vr/app/oi/index"] = jsmod(instr{op: "bump"}, instr{op: "set", k: 0, v: 6})
				out.Count("scenario", "directory-with-only-an-extensionless-index")
			}
			files["/vr/app/node_modules/lib/package.json"] = fentry{kind: "pkg", main: "main.js"}
			pkgText["/vr/app/node_modules/lib/package.json"] = `{"main": "main.js"}`
			files["/vr/app/node_modules/lib/main.js"] = jsmod(instr{op: "bump"}, instr{op: "req", req: "../../" + names[0], catch: true})
			ncalls := 2 + r.Intn(5)
			if len(sibReqs) > 0 && r.Chance(70) {
				calls = append(calls, [3]string{"js", scriptDir, sibReqs[r.Intn(len(sibReqs))]})
				calls = append(calls, [3]string{"js", scriptDir, r.Pick([]string{"./a", "./b.js", "/vr/app/a", "./x/../a"})})
			}
			for i := 0; i < ncalls; i++ {
				kind := "js"
				if r.Chance(30) {
					kind = "go"
				}
				req := spell(names[r.Intn(len(names))])
				if r.Chance(15) {
					req = r.Pick([]string{"./e.json", "./dirm", "lib", "./dirm/index", "./bad.json", "./missing", "./oi", "./oi/index", "./dirm/"})
				}
				if kind == "go" && !strings.HasPrefix(req, "/") {
					req = "/vr/app/" + strings.TrimPrefix(req, "./") // Go-side Require resolves against "."
					if req == "/vr/app/lib" {
						req = "/vr/app/node_modules/lib"
					}
				}
				calls = append(calls, [3]string{kind, scriptDir, req})
			}
		case "resolve":
			// competing candidates for the name "m" at several places
			bases := []string{"/vr/app", "/vr/app/node_modules", "/vr/node_modules", "/node_modules", "/vr/app/sub/node_modules", "/vr/app/sub", "/vr/app/node_modules/x/node_modules"}
			for _, b := range bases {
				if !r.Chance(55) && b != "/vr/app" {
					continue
				}
				add := func(rel string, e fentry) {
					if r.Chance(60) {
						if r.Chance(6) {
							e = fentry{kind: "err"}
						}
						files[b+"/"+rel] = e
					}
				}
				add("m", jsmod())
				add("m.js", jsmod())
				add("m.json", fentry{kind: "json", valid: true, v: 1})
				add("m/index.js", jsmod())
				add("m/index.json", fentry{kind: "json", valid: true, v: 2})
				add("m/lib.js", jsmod())
				add("m/lib/index.js", jsmod())
				add("m/lib.json", fentry{kind: "json", valid: true, v: 3})
				add("m/lib.min.js", jsmod())
				add("m/data.v2.json", fentry{kind: "json", valid: true, v: 4})
				add("m/lib.min", jsmod())
				// files literally named "index" (no extension): a directory is its index.js, then its index.json, never its "index"
				if r.Chance(50) {
					add("m/index", jsmod())
					add("m/lib/index", jsmod())
					out.Count("scenario", "extensionless-index-in-a-directory")
				}
				// the directory a "main" may name can be a package of its own: its package.json plays no part in resolving the outer main
				if r.Chance(35) {
					files[b+"/m/lib/alt.js"] = jsmod()
					ip := b + "/m/lib/package.json"
					if r.Chance(75) {
						files[ip], pkgText[ip] = fentry{kind: "pkg", main: "alt.js"}, `{"main": "alt.js"}`
					} else {
						files[ip], pkgText[ip] = fentry{kind: "pkg", main: "gone.js"}, `{"main": "gone.js"}`
					}
				}
				innerPkg := false
				if _, has := files[b+"/m/lib/package.json"]; has && r.Chance(60) {
					// make the outer main reach that directory: no file candidate in front of it
					delete(files, b+"/m/lib")
					delete(files, b+"/m/lib.js")
					delete(files, b+"/m/lib.json")
					if r.Chance(70) {
						files[b+"/m/lib/index.js"] = jsmod()
					}
					mn := r.Pick([]string{"lib", "./lib", "lib/"})
					pp := b + "/m/package.json"
					files[pp], pkgText[pp] = fentry{kind: "pkg", main: mn}, fmt.Sprintf(`{"main": %s}`, jsq(mn))
					innerPkg = true
				}
				if !innerPkg && r.Chance(50) {
					p := b + "/m/package.json"
					switch r.Intn(10) {
					case 7: // only the member named exactly "main" counts: "Main" is some other member, the package has no main
						files[p], pkgText[p] = fentry{kind: "pkg"}, `{"Main": "lib.js", "MAIN": "./lib.min", "name": "m"}`
						out.Count("scenario", "package.json-with-Main-but-no-main")
					case 8:
						files[p], pkgText[p] = fentry{kind: "pkg", main: "index.js"}, `{"main": "index.js", "MAIN": "lib.js", "Main": "lib.min.js"}`
						out.Count("scenario", "package.json-with-main-and-MAIN")
					case 9:
						files[p], pkgText[p] = fentry{kind: "pkg"}, `{"main": 5, "Main": "lib.js"}`
					case 0:
						files[p], pkgText[p] = fentry{kind: "pkg"}, `{"name": "m"}`
					case 1:
						files[p], pkgText[p] = fentry{kind: "pkg"}, `{"main": ""}`
					case 2:
						files[p], pkgText[p] = fentry{kind: "pkg"}, `{"main": `
					case 3:
						files[p] = fentry{kind: "err"}
					default:
						main := r.Pick([]string{"lib", "lib.js", "./lib", "lib/index.js", "index.js", "lib.min", "./data.v2", "lib.min.js", "./lib.min"})
						// claimed domain: the main target exists
						files[p], pkgText[p] = fentry{kind: "pkg", main: main}, fmt.Sprintf(`{"main": %s}`, jsq(main))
					}
				}
			}
			// a name with a slash from a parent and its tail from the child directory join to the same path
			if r.Chance(60) {
				files["/vr/app/m/node_modules/lib.js"] = jsmod()
				files["/vr/app/m/w.js"] = jsmod(instr{op: "req", req: "lib", catch: true})
			}
			// functions that require lazily, defined in one directory and called while a module of another directory is being
			// evaluated (and later from the top level): the request is resolved against the DEFINING file's directory
			files["/vr/app/node_modules/x/y.js"] = jsmod(instr{op: "lazy", req: "m"}, instr{op: "lazy", req: "./m"}, instr{op: "req", req: "m", catch: true})
			files["/vr/app/sub/z.js"] = jsmod(instr{op: "lazy", req: r.Pick([]string{"./m", "m", "../m"})}, instr{op: "lazy", req: "./m/lib"}, instr{op: "req", req: "m", catch: true}, instr{op: "req", req: "../m", catch: true}, instr{op: "req", req: "./m", catch: true})
			files["/vr/c.js"] = jsmod(instr{op: "call", req: "./app/sub/z"}, instr{op: "call", req: "./app/node_modules/x/y"}, instr{op: "call", req: "./app/sub/z.js"})
			files["/vr/app/c2.js"] = jsmod(instr{op: "call", req: "x/y"}, instr{op: "req", req: "./m", catch: true}, instr{op: "call", req: "./sub/z"})
			// drop package.json "main" cases whose target is missing (Node throws, the library keeps searching: outside the claim)
			for p, e := range files {
				if e.kind == "pkg" && e.main != "" {
					dir := filepath.Dir(p)
					t := filepath.Join(dir, e.main)
					ok := false
					for _, cand := range []string{t, t + ".js", t + ".json", t + "/index.js", t + "/index.json"} {
						if fe, has := files[cand]; has && fe.kind != "pkg" {
							ok = true
						}
					}
					if !ok {
						files[p], pkgText[p] = fentry{kind: "pkg"}, `{"name": "m"}`
					}
				}
			}
			if r.Chance(35) { // a directory that holds nothing but an extensionless "index": not a module
				files["/vr/app/oi/index"] = jsmod()
				out.Count("scenario", "directory-with-only-an-extensionless-index")
			}
			reqs := []string{"./m", "m", "/vr/app/m", "../app/m", "./m.js", "./m/lib", "m/lib", "m/lib", "./m/w", "./m/w.js", "./sub/z", "x/y", "./sub/../m", "/vr/app/sub/m", "./nothing", "nothing", "./m/index",
				"/vr/c", "/vr/c.js", "/vr/app/c2", "/vr/c", "./oi", "/vr/app/oi", "./oi/index", "./m/lib/index"}
			ncalls := 2 + r.Intn(5)
			// the directory a "main" names, required on its own first: what that request resolved to must not answer the probe of the outer main
			if _, has := files["/vr/app/m/lib/package.json"]; has && r.Chance(60) {
				calls = append(calls, [3]string{"js", "/vr/app", r.Pick([]string{"./m/lib", "/vr/app/m/lib", "./m/../m/lib"})})
				calls = append(calls, [3]string{"js", "/vr/app", r.Pick([]string{"./m", "/vr/app/m", "../app/m"})})
			}
			for i := 0; i < ncalls; i++ {
				calls = append(calls, [3]string{"js", r.Pick([]string{"/vr/app", "/vr/app/sub", "/vr/app/node_modules/x", "/vr", "/"}), r.Pick(reqs)})
			}
		case "native":
			relativeScripts = r.Chance(50)
			if relativeScripts {
				scriptDir = "."
			}
			base := scriptDir
			pj := func(rel string) string { return filepath.Join(base, rel) }
			for _, nm := range []string{"util", "gnat", "rnat", "xcore", "shared", "plain"} {
				if r.Chance(50) {
					files[pj(nm+".js")] = jsmod(instr{op: "bump"})
				}
			}
			if r.Chance(40) {
				files[pj("node_modules/util/index.js")] = jsmod(instr{op: "bump"})
				files[pj("node_modules/plain.js")] = jsmod(instr{op: "bump"})
			}
			for _, nm := range []string{"rnat", "util", "shared", "gnat", "xcore", "dir/rsub"} {
				if r.Chance(40) {
					regNat = append(regNat, nm)
				}
			}
			reqs := []string{"util", "node:util", "./util", "./util.js", "gnat", "rnat", "shared", "xcore", "node:xcore", "xonly", "node:xonly", "node:gnat", "node:nope", "plain", "./plain", "buffer", "node:buffer",
				"shared2", "node:shared2", "dir/gsub", "dir/rsub", "./gnat", "node:rnat", "cyca", "node:cyca", "cycb", "node:cycb", "selfy", "node:selfy", "node:cyca", "flaky", "node:flaky", "flaky", "node:flaky",
				// spellings that are NOT the registered name: a name is looked up as written (dot segments behind node: do not cancel the
				// prefix, a trailing or doubled separator does not name the core module)
				"node:node:xonly", "node:node:xonly", "node:node:util", "node:node:gnat",
				"node:x/../gnat", "node:/../rnat", "node:x/../util", "node:x/../dir/rsub", "util/", "gnat//", "dir//rsub", "dir/x/../rsub", "node:util/", "node:./util", "xcore/", "node:xcore/."}
			ncalls := 3 + r.Intn(7)
			for i := 0; i < ncalls; i++ {
				kind := "js"
				if r.Chance(20) {
					kind = "go"
				}
				calls = append(calls, [3]string{kind, scriptDir, r.Pick(reqs)})
			}
		}

		// ---- run ----
		var loaderLog []string
		reg := require.NewRegistry(require.WithLoader(func(p string) ([]byte, error) {
			loaderLog = append(loaderLog, p)
			e, ok := files[p]
			if !ok {
				return nil, require.ModuleFileDoesNotExistError
			}
			if e.kind == "err" {
				return nil, errIO
			}
			return render(p, e, pkgText), nil
		}), require.WithPathResolver(func(base, p string) string { return filepath.Join(base, p) }))
		for _, nm := range regNat {
			reg.RegisterNativeModule(nm, mkLoader("registry", nm))
		}
		for k := range kinds {
			delete(kinds, k)
		}
		vm := goja.New()
		rm := reg.Enable(vm)
		if _, err := vm.RunString(prelude); err != nil {
			panic(err)
		}
		errFn, _ := goja.AssertFunction(vm.Get("__err"))
		okFn, _ := goja.AssertFunction(vm.Get("__ok"))
		logPush := func(name string, payload goja.Value) {
			vm.Set("__tmp", payload)
			vm.RunString(fmt.Sprintf(`__log.push(["", %s, __tmp])`, jsq(name)))
		}
		crashed := ""
		for _, cl := range calls {
			func() {
				defer func() {
					if x := recover(); x != nil {
						// a native loader that panics with a JavaScript value: from JavaScript that is an exception; a Go caller of
						// Require() gets the panic itself (there is no script frame to turn it into an error)
						if v, isVal := x.(goja.Value); isVal && cl[0] == "go" {
							payload, _ := errFn(goja.Undefined(), v)
							logPush(cl[2], payload)
							return
						}
						crashed = fmt.Sprint(x)
					}
				}()
				if cl[0] == "go" {
					v, err := rm.Require(cl[2])
					if err != nil {
						var payload goja.Value
						if ex, ok := err.(*goja.Exception); ok {
							payload, _ = errFn(goja.Undefined(), ex.Value())
						} else {
							payload, _ = errFn(goja.Undefined(), vm.ToValue(err.Error()))
						}
						logPush(cl[2], payload)
					} else {
						payload, _ := okFn(goja.Undefined(), v)
						logPush(cl[2], payload)
					}
				} else {
					name := filepath.Join(cl[1], "main.js")
					if cl[1] == "." {
						name = "main.js"
					}
					prg, err := goja.Compile(name, reqJS(`""`, cl[2], true), false)
					if err != nil {
						panic(err)
					}
					if _, err := vm.RunProgram(prg); err != nil {
						crashed = err.Error()
					}
				}
			}()
		}
		id := len(out.Cases)
		if crashed != "" {
			out.Fail(id, "require-crashed", map[string]interface{}{"calls": calls, "err": crashed})
			out.Add("crashed", calls, false)
			continue
		}
		// ---- collect ----
		lv, _ := vm.RunString(`JSON.stringify([__log, __count, __throws, __done])`)
		var got []interface{}
		jsonUnmarshal(lv.String(), &got)
		logArr := got[0].([]interface{})
		// log-only oracle: a module body runs to its end at most once per runtime (a second evaluation is due only to a module
		// whose evaluation failed, and that one did not reach its end)
		for f, n := range got[3].(map[string]interface{}) {
			if n.(float64) > 1 {
				out.Fail(id, "module-body-completed-twice", map[string]interface{}{"file": f, "completions": n, "evaluations": got[1].(map[string]interface{})[f], "calls": calls, "log": logArr})
			}
		}
		// log-only oracle: the value a module body throws is what the require() that was evaluating it reports next
		for _, t := range got[2].([]interface{}) {
			tr := t.([]interface{})
			idx := int(tr[2].(float64))
			good := false
			if idx < len(logArr) {
				pl := logArr[idx].([]interface{})[2].([]interface{})
				good = pl[0].(string) == "thrown" && int(pl[1].(float64)) == int(tr[1].(float64)) && pl[2].(bool)
			}
			if !good {
				var next interface{} = "(no further require outcome was logged)"
				if idx < len(logArr) {
					next = logArr[idx]
				}
				out.Fail(id, "thrown-value-did-not-reach-the-requirer", map[string]interface{}{"file": tr[0], "tag": tr[1], "next_logged_outcome": next, "calls": calls})
			}
		}
		out.Count("throws", lib.SizeBucket(len(got[2].([]interface{}))))
		counts := got[1].(map[string]interface{})
		var evCoq, evFiles, evCounts []string
		var descEv []string
		thrownOK := true
		for _, e := range logArr {
			ev := e.([]interface{})
			who, name := ev[0].(string), ev[1].(string)
			pl := ev[2].([]interface{})
			var outc string
			file := ""
			switch pl[0].(string) {
			case "ok":
				var ks []string
				for _, kv := range pl[2].([]interface{}) {
					p := kv.([]interface{})
					ks = append(ks, fmt.Sprintf("(%d%%nat, %d%%nat)", int(p[0].(float64)), int(p[1].(float64))))
				}
				outc = fmt.Sprintf("(0, %d%%nat, %s)", int(pl[1].(float64)), lib.List(ks))
				file = pl[3].(string)
				if k := pl[4].(string); k != "" {
					file = "native:" + k
				}
			case "invalid":
				outc = "(1, 0%nat, [])"
			case "ioerr":
				outc = "(2, 0%nat, [])"
			case "nobuiltin":
				outc = "(3, 0%nat, [])"
			case "syntax":
				outc = "(4, 0%nat, [])"
			case "thrown":
				outc = fmt.Sprintf("(5, %d%%nat, [])", int(pl[1].(float64)))
				if !pl[2].(bool) {
					thrownOK = false
				}
			}
			evCoq = append(evCoq, fmt.Sprintf("(%s, %s, %s)", lib.ZsStr(who), lib.ZsStr(name), outc))
			evFiles = append(evFiles, lib.ZsStr(file))
			cnt := 0
			if pl[0].(string) == "ok" {
				cnt = int(pl[5].(float64))
			}
			evCounts = append(evCounts, lib.Nat(cnt))
			descEv = append(descEv, fmt.Sprintf("%s require(%q) -> %v", who, name, pl))
		}
		if !thrownOK {
			out.Fail(id, "thrown-value-not-identical", descEv)
		}
		var fsCoq []string
		var paths []string
		for p := range files {
			paths = append(paths, p)
		}
		sort.Strings(paths)
		for _, p := range paths {
			fsCoq = append(fsCoq, lib.Pair(lib.ZsStr(p), coqEntry(files[p])))
		}
		var callsCoq []string
		for _, cl := range calls {
			dir := cl[1]
			if cl[0] == "go" {
				dir = "."
			}
			callsCoq = append(callsCoq, lib.Pair(lib.ZsStr(dir), lib.ZsStr(cl[2])))
		}
		var cntCoq []string
		var cks []string
		for k := range counts {
			cks = append(cks, k)
		}
		sort.Strings(cks)
		for _, k := range cks {
			cntCoq = append(cntCoq, fmt.Sprintf("(%s, %d%%nat)", lib.ZsStr(k), int(counts[k].(float64))))
		}
		var logCoq []string
		for _, p := range loaderLog {
			logCoq = append(logCoq, lib.ZsStr(p))
		}
		zl := func(xs []string) string {
			var q []string
			for _, x := range xs {
				q = append(q, lib.ZsStr(x))
			}
			return lib.List(q)
		}
		var runsCoq []string
		var rk []string
		for k := range kinds {
			rk = append(rk, k)
		}
		sort.Strings(rk)
		for _, k := range rk {
			runsCoq = append(runsCoq, fmt.Sprintf("(%s, %d%%nat)", lib.ZsStr(k), kinds[k]))
		}
		coq := fmt.Sprintf("{| c_fs := %s; c_nat := {| n_registry := %s; n_global := %s; n_core := %s; n_loader_reqs := %s; n_loader_throws := [[102;108;97;107;121]] |}; c_calls := %s; c_events := %s; c_files := %s; c_evcounts := %s; c_counters := %s; c_loader_log := %s; c_native_runs := %s |}",
			lib.List(fsCoq), zl(regNat), zl(globals), zl(cores), loaderReqsCoq, lib.List(callsCoq), lib.List(evCoq), lib.List(evFiles), lib.List(evCounts), lib.List(cntCoq), lib.List(logCoq), lib.List(runsCoq))
		nontriv := len(files) >= 2
		var caseTags []string
		for _, cl := range calls {
			if strings.HasPrefix(cl[2], "node:node:") {
				caseTags = append(caseTags, "double-node-prefix")
				break
			}
		}
		out.Add(coq, map[string]interface{}{"files": paths, "registry_natives": regNat, "calls": calls, "events": descEv, "counters": counts, "loader_calls": len(loaderLog)}, nontriv, caseTags...)
		out.Count("files", lib.SizeBucket(len(files)))
		out.Count("calls", strconv.Itoa(len(calls)))
		out.Count("events", lib.SizeBucket(len(logArr)))
		for _, e := range descEv {
			switch {
			case strings.Contains(e, "[thrown"):
				out.Count("outcome", "thrown")
			case strings.Contains(e, "[ok"):
				out.Count("outcome", "ok")
			default:
				out.Count("outcome", "error")
			}
		}
	}
	if profile == "cache" {
		realFS(out, r)
	}
	out.Notes = append(out.Notes, "profile="+profile+"; pure path resolver (filepath.Join); identities through a JS Map of exports objects; thrown values compared by identity in the catching script")
	out.Write(outPath)
}

// realFS: the default loader and path resolver on a real directory with symbolic links (a linked directory, a linked file, an
// index.js that is a link). For the spellings the library canonicalises (directories, full file names) one file is one module.
// (Extension probing through a link - './linkdir/real', './flink' - is outside: the unchanged library keys those by the
// un-resolved name; see DESIGN.md.)
func realFS(out *lib.Output, r *lib.Rand) {
	T, err := os.MkdirTemp("", "verif-realfs")
	if err != nil {
		out.Notes = append(out.Notes, "real-directory phase skipped: "+err.Error())
		return
	}
	defer os.RemoveAll(T)
	if p, err := filepath.EvalSymlinks(T); err == nil {
		T = p
	}
	os.MkdirAll(T+"/lib", 0o755)
	os.MkdirAll(T+"/d", 0o755)
	os.MkdirAll(T+"/pkg", 0o755)
	os.WriteFile(T+"/lib/real.js", []byte("globalThis.__n = (globalThis.__n||0)+1; exports.x = {}"), 0o644)
	os.WriteFile(T+"/lib/data.json", []byte(`{"a":1}`), 0o644)
	if os.Symlink("../lib/real.js", T+"/d/index.js") != nil || os.Symlink("lib", T+"/linkdir") != nil || os.Symlink("lib/real.js", T+"/flink.js") != nil ||
		os.Symlink("../lib/real.js", T+"/pkg/entry.js") != nil {
		out.Notes = append(out.Notes, "real-directory phase skipped: cannot create symbolic links")
		return
	}
	os.WriteFile(T+"/pkg/package.json", []byte(`{"main":"entry.js"}`), 0o644)
	reqs := []string{"./d", "./lib/real.js", "./d/index.js", "./linkdir/real.js", "./flink.js", T + "/d", T + "/flink.js", "./lib/../d", "./pkg", "./pkg/entry.js", T + "/linkdir/real.js"}
	runs := 0
	for k := 0; k < 24; k++ {
		vm := goja.New()
		new(require.Registry).Enable(vm)
		n := 2 + r.Intn(4)
		var seq []string
		for i := 0; i < n; i++ {
			seq = append(seq, reqs[r.Intn(len(reqs))])
		}
		vm.Set("__seq", seq)
		prg, _ := goja.Compile(T+"/main.js", `(function(){ var first = null, same = true; __seq.forEach(function(q){ var m = require(q); if (first === null) first = m; if (m !== first) same = false }); return [same, globalThis.__n] })()`, false)
		v, err := vm.RunProgram(prg)
		runs++
		if err != nil {
			out.Fail(-1, "realfs-require-failed", map[string]interface{}{"requests": seq, "err": err.Error()})
			continue
		}
		res := v.Export().([]interface{})
		if res[0] != true || fmt.Sprint(res[1]) != "1" {
			out.Fail(-1, "realfs-one-file-two-modules", map[string]interface{}{"requests": seq, "identical": res[0], "evaluations": res[1],
				"tree": "lib/real.js; d/index.js -> ../lib/real.js; linkdir -> lib; flink.js -> lib/real.js; pkg/package.json main entry.js -> ../lib/real.js"})
		}
	}
	out.Count("real-directory", fmt.Sprintf("%d sequences", runs))
}
