package main

import "encoding/json"

func jsonUnmarshal(s string, v interface{}) {
	if err := json.Unmarshal([]byte(s), v); err != nil {
		panic(err)
	}
}
