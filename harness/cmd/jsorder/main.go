// C18 harness: programs that nest promise reactions, immediates, timeouts and self-clearing intervals, with throws and
// clears, run on a real event loop; the order in which callbacks start is judged by the acceptor of Model/JsOrder.v.
package main

import (
	"fmt"
	"os"
	"strconv"
	"strings"
	"time"

	"github.com/dop251/goja"
	"github.com/dop251/goja_nodejs/console"
	"github.com/dop251/goja_nodejs/eventloop"
	"github.com/dop251/goja_nodejs/require"

	"verif/harness/lib"
)

type act struct {
	Kind string // micro immediate timer interval clearimm cleartimer throw busy
	CB   int
	D    int
}

type silent struct{}

func (silent) Log(string)   {}
func (silent) Warn(string)  {}
func (silent) Error(string) {}

type prog struct {
	bodies [][]act
	kind   map[int]string // how callback i was scheduled: micro | immediate | timer | interval
}

func gen(r *lib.Rand) *prog {
	p := &prog{kind: map[int]string{}}
	var mk func(depth int) int
	created := []int{}
	mk = func(depth int) int {
		id := len(p.bodies)
		p.bodies = append(p.bodies, nil)
		n := r.Intn(5)
		if depth >= 3 {
			n = r.Intn(2)
		}
		if depth == 0 {
			n = 2 + r.Intn(5)
		}
		var b []act
		for i := 0; i < n; i++ {
			switch x := r.Intn(20); {
			case x < 5:
				c := mk(depth + 1)
				p.kind[c] = "micro"
				b = append(b, act{"micro", c, 0})
			case x < 10:
				c := mk(depth + 1)
				p.kind[c] = "immediate"
				created = append(created, c)
				b = append(b, act{"immediate", c, 0})
			case x < 13:
				c := mk(depth + 1)
				p.kind[c] = "timer"
				created = append(created, c)
				b = append(b, act{"timer", c, r.Intn(3)})
			case x < 14:
				c := mk(depth + 1)
				p.kind[c] = "interval"
				created = append(created, c)
				b = append(b, act{"interval", c, 1 + r.Intn(2)})
			case x < 17:
				if len(created) > 0 {
					c := created[r.Intn(len(created))]
					if p.kind[c] == "immediate" {
						b = append(b, act{"clearimm", c, 0})
					} else {
						b = append(b, act{"cleartimer", c, 0})
					}
				}
			case x < 18:
				b = append(b, act{"busy", 0, 1 + r.Intn(2)})
			default:
				b = append(b, act{"throw", 0, 0})
				i = n
			}
		}
		p.bodies[id] = b
		return id
	}
	mk(0)
	return p
}

// genBurst: more than a thousand immediates pending in one batch; early ones request more (directly and from a reaction)
func genBurst(r *lib.Rand) *prog {
	p := &prog{kind: map[int]string{}}
	n := 1026 + r.Intn(120)
	p.bodies = make([][]act, n+1)
	var root []act
	for i := 1; i <= n; i++ {
		p.kind[i] = "immediate"
		root = append(root, act{"immediate", i, 0})
	}
	p.bodies[0] = root
	add := func(body []act, kind string) int {
		id := len(p.bodies)
		p.bodies = append(p.bodies, body)
		p.kind[id] = kind
		return id
	}
	for _, at := range []int{1, 1 + r.Intn(n), n} { // requests made by the first, by some, and by the last immediate of the batch
		late := add(nil, "immediate")
		inner := add(nil, "immediate")
		mic := add([]act{{"immediate", inner, 0}}, "micro")
		p.bodies[at] = append(p.bodies[at], act{"immediate", late, 0}, act{"micro", mic, 0})
	}
	return p
}

func (p *prog) js() string {
	var sb strings.Builder
	sb.WriteString("var __log = []; var __h = [];\n")
	for i, b := range p.bodies {
		fmt.Fprintf(&sb, "function cb%d() { __log.push(%d);\n", i, i)
		for _, a := range b {
			switch a.Kind {
			case "micro":
				fmt.Fprintf(&sb, "  Promise.resolve().then(cb%d);\n", a.CB)
			case "immediate":
				fmt.Fprintf(&sb, "  __h[%d] = setImmediate(cb%d);\n", a.CB, a.CB)
			case "timer":
				fmt.Fprintf(&sb, "  __h[%d] = setTimeout(cb%d, %d);\n", a.CB, a.CB, a.D)
			case "interval":
				fmt.Fprintf(&sb, "  __h[%d] = setInterval(function () { clearInterval(__h[%d]); cb%d(); }, %d);\n", a.CB, a.CB, a.CB, a.D)
			case "clearimm":
				fmt.Fprintf(&sb, "  clearImmediate(__h[%d]);\n", a.CB)
			case "cleartimer":
				if p.kind[a.CB] == "interval" {
					fmt.Fprintf(&sb, "  clearInterval(__h[%d]);\n", a.CB)
				} else {
					fmt.Fprintf(&sb, "  clearTimeout(__h[%d]);\n", a.CB)
				}
			case "busy":
				fmt.Fprintf(&sb, "  var __t = Date.now() + %d; while (Date.now() < __t) {}\n", a.D)
			case "throw":
				sb.WriteString("  throw new Error('thrown by callback');\n")
			}
		}
		sb.WriteString("}\n")
	}
	sb.WriteString("cb0();\n")
	return sb.String()
}

func (p *prog) coq() string {
	var bodies []string
	for _, b := range p.bodies {
		var as []string
		for _, a := range b {
			switch a.Kind {
			case "micro":
				as = append(as, fmt.Sprintf("AMicro %d", a.CB))
			case "immediate":
				as = append(as, fmt.Sprintf("AImmediate %d", a.CB))
			case "timer", "interval":
				as = append(as, fmt.Sprintf("ATimer %d", a.CB))
			case "clearimm":
				as = append(as, fmt.Sprintf("AClearImmediate %d", a.CB))
			case "cleartimer":
				as = append(as, fmt.Sprintf("AClearTimer %d", a.CB))
			case "throw":
				as = append(as, "AThrow")
			}
		}
		bodies = append(bodies, lib.List(as))
	}
	return lib.List(bodies)
}

func main() {
	outPath := os.Args[1]
	n := 300
	if lib.Tier() == "thorough" {
		n = 4000
	}
	if len(os.Args) > 2 {
		n, _ = strconv.Atoi(os.Args[2])
	}
	out := lib.NewOutput("C18")
	r := lib.NewRand(lib.Seed()*977 + 3)
	for c := 0; c < n; c++ {
		p := gen(r)
		if c%100 == 7 { // 3 per quick run
			p = genBurst(r)
		}
		src := p.js()
		lib.Breadcrumb(outPath, src)
		reg := new(require.Registry)
		reg.RegisterNativeModule(console.ModuleName, console.RequireWithPrinter(silent{}))
		loop := eventloop.NewEventLoop(eventloop.WithRegistry(reg))
		var logv []int
		done := make(chan struct{})
		go func() {
			defer close(done)
			var vm0 *goja.Runtime
			loop.Run(func(vm *goja.Runtime) { vm0 = vm; vm.RunString(src) }) // a throw of the script itself is one of the cases
			if v := vm0.Get("__log"); v != nil {
				vm0.ExportTo(v, &logv)
			}
		}()
		select {
		case <-done:
		case <-time.After(5 * time.Second):
			out.Fail(len(out.Cases), "run-did-not-return", map[string]interface{}{"program": src})
			loop.StopNoWait() // so that the log collected so far can still be judged
			select {
			case <-done:
			case <-time.After(2 * time.Second):
				continue
			}
		}
		var ls []string
		for _, x := range logv {
			ls = append(ls, strconv.Itoa(x))
		}
		kinds := map[string]int{}
		for _, k := range p.kind {
			kinds[k]++
		}
		coq := fmt.Sprintf("{| c_prog := %s; c_log := %s |}", p.coq(), lib.List(ls))
		out.Add(coq, map[string]interface{}{"program": src, "log": logv}, len(p.bodies) >= 4)
		out.Count("callbacks", lib.SizeBucket(len(p.bodies)))
		for k, v := range kinds {
			if v > 0 {
				out.Count("uses", k)
			}
		}
	}
	out.Write(outPath)
}
