//go:build verif

package eventloop

import "sync/atomic"

// White-box view for the verification harness. This file is NOT part of the repository: it is injected into the
// package with `go build -overlay`. Fields are read without locks: the harness calls it only while every goroutine of
// the loop is parked at a verifPoint or blocked.
type VerifSnap struct {
	JobCount   int32
	Jobs       int
	AuxJobs    int
	Token      int
	CanRun     int32
	Running    bool
	Terminated bool
	JobIdxOK   bool // jobs[k].idx == k for all k
}

func VerifSnapshot(loop *EventLoop) VerifSnap {
	s := VerifSnap{
		JobCount:   loop.jobCount,
		Jobs:       len(loop.jobs),
		AuxJobs:    len(loop.auxJobs),
		Token:      len(loop.wakeupChan),
		CanRun:     atomic.LoadInt32(&loop.canRun),
		Running:    loop.running,
		Terminated: loop.terminated,
		JobIdxOK:   true,
	}
	for k, j := range loop.jobs {
		if j == nil || j.idx != k {
			s.JobIdxOK = false
		}
	}
	return s
}

// VerifTimerID / VerifIntervalID give the harness a stable identity for the objects passed to verifPoint.
func VerifJobOf(obj interface{}) *job {
	switch x := obj.(type) {
	case *Timer:
		return &x.job
	case *Interval:
		return &x.job
	case *Immediate:
		return &x.job
	case *job:
		return x
	}
	return nil
}

func VerifCancelled(obj interface{}) bool {
	if j := VerifJobOf(obj); j != nil {
		return j.cancelled
	}
	return false
}
