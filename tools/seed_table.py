#!/usr/bin/env python3
"""seed_table.py: rewrite the table of seeded changes in DESIGN.md from seeded/*/meta.json (verdict when the change was first
run) and seeded/*/recheck.json (verdict of the current checks against HEAD + patch)."""
import json, os, re
V = os.path.dirname(os.path.dirname(os.path.abspath(__file__)))
rows = []
for sid in sorted(os.listdir(os.path.join(V, "seeded"))):
    d = os.path.join(V, "seeded", sid)
    try:
        m = json.load(open(os.path.join(d, "meta.json")))
    except Exception:
        continue
    first = m.get("first_run")
    if not first:
        ls = (m.get("check_result") or {}).get("lines") or []
        v = [l for l in ls if l.startswith("VIOLATION")]
        first = "missed" if not v else ("tie only" if all("no-failing-input-found" in l for l in v) else "failing input")
    now = "(not rechecked)"
    rp = os.path.join(d, "recheck.json")
    if os.path.exists(rp):
        r = json.load(open(rp))
        v = [l for l in r.get("lines", []) if l.startswith("VIOLATION")]
        names = sorted({l.split("replay=")[-1].split("/")[-1].split(".json")[0].replace(r["property"] + "_", "") for l in v if "no-failing-input-found" not in l})
        now = ("failing input: " + ", ".join(names)) if names else ("tie only (no-failing-input-found)" if v else "MISSED")
    summ = (m.get("summary") or "").replace("|", "/").replace("\n", " ")
    rows.append("| %s | %s | %s | %s |" % (sid, summ[:110] + ("…" if len(summ) > 110 else ""), first, now))
p = os.path.join(V, "DESIGN.md")
s = open(p).read()
head = "| seed | change (abridged) | when first run | now (HEAD + patch, `tools/recheck_seeds.sh`) |\n|---|---|---|---|\n"
i = s.index(head)
j = s.index("\n\n", i)
s = s[:i] + head + "\n".join(rows) + s[j:]
open(p, "w").write(s)
print(len(rows), "rows")
