#!/usr/bin/env python3
"""Copy the function-text tables that the translator generated from /repo into the hand-kept Model/*Src.v files.
Run deliberately, after a change of the repository's source has been reviewed against the model (a fix: commit)."""
import re, os
COQ = os.path.join(os.path.dirname(os.path.abspath(__file__)), "..", "coq")
PAIRS = [("Gen/RequireGlue.v", "resolve_src", "Model/ResolveSrc.v", "expected_resolve_src",
          "the text of the functions of require/resolve.go and require/module.go that Model/Require.v was written against"),
         ("Gen/BufferCodecs.v", "buffer_strings_src", "Model/BufferSrc.v", "expected_buffer_strings_src",
          "the text of the string entry points of buffer/buffer.go that Model/BufferStrings.v was written against"),
         ("Gen/UrlTables.v", "usp_src", "Model/UspSrc.v", "expected_usp_src",
          "the text of the URLSearchParams code (urlsearchparams.go, nodeurl.go, escape.go) that Model/SearchParams.v was written against"),
         ("Gen/UrlGlue.v", "url_funcs", "Model/UrlSrc.v", "expected_url_funcs",
          "the text of the functions of url/url.go that handle the URL object's state, which Model/UrlObject.v and Model/UrlResolve.v were written against"),
         ("Gen/RequireGlue.v", "loader_src", "Model/LoaderSrc.v", "expected_loader_src",
          "the text of Registry.getSource and Registry.getCompiledSource that Model/JsonModule.v was written against"),
         ("Gen/LoopSkeleton.v", "loop_funcs", "Model/LoopSrc.v", "expected_loop_funcs",
          "the text of eventloop/eventloop.go that Model/Loop.v was written against"),
         ("Gen/UtilFormat.v", "console_util_src", "Model/ConsoleSrc.v", "expected_console_util_src",
          "the text of every function of console/module.go and util/module.go that Model/Format.v (format, console routing) was written against")]
for gen, gname, model, mname, what in PAIRS:
    g = open(os.path.join(COQ, gen)).read()
    m = re.search(r"Definition %s : list \(string \* string\) := \[(.*?)\]%%string\." % gname, g, re.S)
    assert m, gname
    out = ("(* %s — %s.\n   %s carries the same table regenerated from the source on every run; the property files compare them.\n"
           "   Refreshed with tools/snapshot_src.py after a reviewed change of the source. *)\n"
           "From Coq Require Import String List.\nImport ListNotations.\n"
           "Definition %s : list (string * string) := [%s]%%string.\n") % (model, what, gen, mname, m.group(1))
    path = os.path.join(COQ, model)
    if os.path.exists(path):   # keep the file as it is (imports, lemmas after the table) and replace the table only
        cur = open(path).read()
        mm = re.search(r"(Definition %s : list \(string \* string\) := \[)(.*?)(\]%%string\.)" % mname, cur, re.S)
        if mm:
            out = cur[:mm.start(2)] + m.group(1) + cur[mm.end(2):]
    if not os.path.exists(path) or open(path).read() != out:
        open(path, "w").write(out)
        print("updated", model)
