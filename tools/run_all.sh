#!/bin/sh
# run every registered quick check against /repo (evidence is rewritten); prints one line per property
cd /verif
tools/reset_repo.sh
for p in $(python3 -c "import json;print(' '.join(c['property_id'] for c in json.load(open('MANIFEST.json'))['checks']))"); do
  timeout 1500 ./check $p --tier ${1:-quick} </dev/null 2>/dev/null | grep -E "VIOLATION|KNOWN|theorems" 
done
