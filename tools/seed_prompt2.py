#!/usr/bin/env python3
"""seed_prompt2.py <pid> <round-letter>: prompt for a fresh sub-agent that seeds a regression for one property in its own
worktree /tmp/seed/<pid><letter>. It is given the property's title and statement, the practical rules, and one-line
summaries of the ideas earlier rounds used for the same property (so that it picks another site and mechanism) - nothing
from /verif."""
import json, os, sys
pid, letter = sys.argv[1], sys.argv[2]
name = pid + letter
V = os.path.dirname(os.path.dirname(os.path.abspath(__file__)))
for l in open(os.path.join(V, "properties.jsonl")):
    p = json.loads(l)
    if p["id"] == pid:
        break
earlier = []
for d in sorted(os.listdir(os.path.join(V, "seeded"))):
    if d.startswith(pid) and d != name:
        try:
            earlier.append(json.load(open(os.path.join(V, "seeded", d, "meta.json")))["summary"].replace("\n", " ")[:230])
        except Exception:
            pass
ideas = "\n".join("  - " + e for e in earlier)
print(f"""You are helping to evaluate a verification effort for the Go library dop251/goja_nodejs (Node.js-compatible modules and an event loop for the goja JavaScript engine). Your job is to play the role of a developer who introduces a subtle REGRESSION.

You have your own scratch git worktree of the repository at /tmp/seed/{name} (detached HEAD, clean). Work ONLY inside that directory. Do not read or touch /repo, /verif or any other directory under /tmp/seed. Never use `git stash` (the stash is shared between worktrees and would destroy other people's work); to flip between the changed and the unchanged version use `git diff -- . ':!seed_demo' > /tmp/seed/{name}.patch` then `git apply -R /tmp/seed/{name}.patch` / `git apply /tmp/seed/{name}.patch`.

Environment for every shell call (it does not persist): `export GOFLAGS=-mod=mod GOPROXY=off GOSUMDB=off GOTOOLCHAIN=local`. There is no network. The existing test suite is `go test -vet=off -count=1 ./...` run in the worktree root (about 10 s).

The property that must be BROKEN by your change:

  {pid}: {p['title']}
  {p['statement']}
  (It is meant to hold over: {p['quantifier']['text']})

Task: make a small, realistic-looking change to the library's non-test Go source (something a maintainer could plausibly commit as a refactoring, optimisation, clean-up, bug fix for something else, or small feature, with an innocent comment if you like) such that
  1. the library still compiles and the existing test suite still passes, unedited;
  2. the property above no longer holds;
  3. the violation needs something SPECIFIC to manifest: a particular interleaving, a fault at a particular point, a multi-step sequence of operations, an unusual but legal input, a particular state left behind by an earlier call, or two cooperating sites that each look fine alone. It must NOT be something ordinary use would expose at once.
Do not touch any *_test.go file, testdata, go.mod or go.sum of the library. Keep existing `verifPoint(...)` calls in eventloop.go in place if you edit code around them (they are no-ops in normal builds).

Ideas that were already used by earlier rounds for this property — choose a DIFFERENT mechanism and a different code site if at all possible, and prefer a part of the property's statement that none of these touches:
{ideas}

Deliverables, all inside the worktree:
  * the source change, left UNCOMMITTED in the working tree;
  * a directory `seed_demo/` containing a demonstration (a Go test file in its own package inside the worktree's module, e.g. `seed_demo/demo_test.go`, importing the library packages; or a small program) that FAILS with your change and PASSES without it, deterministically or with very high probability (use loops/retries if it depends on timing; keep it under 60 s);
  * `seed_demo/meta.json` with exactly these keys: "property" ("{pid}"), "summary" (what was changed, 1-3 sentences), "needs" (what is required for the violation to manifest), "demo_cmd" (one shell command, run from the worktree root, that runs the demonstration and exits non-zero on failure; include the GOFLAGS etc. environment assignments in the command itself), "files_changed" (list);
  * `README.md` edits are NOT wanted.
Before you finish, verify yourself: suite passes with the change (run `go test -vet=off -count=1 $(go list ./... | grep -v seed_demo)`); demo fails with the change; demo passes with the change reverted (use git apply -R as described, then re-apply). Leave the worktree with the change APPLIED.

In your final answer, state the change, why it breaks the property, what it needs to manifest, and the three verification results.""")
