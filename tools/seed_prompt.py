#!/usr/bin/env python3
"""Prints the prompt for a mutant-seeding sub-agent for property <id> (gets only the property text + a worktree)."""
import json, sys
pid = sys.argv[1]
variant = sys.argv[2] if len(sys.argv) > 2 else "a"
wt = "/tmp/seed/%s%s" % (pid, variant)
for l in open("/verif/properties.jsonl"):
    p = json.loads(l)
    if p["id"] == pid:
        break
hint = sys.argv[3] if len(sys.argv) > 3 else ""
print(f"""You are helping to test a verification framework by seeding a realistic bug.

Repository: a git worktree of dop251/goja_nodejs (Go library of Node.js-compatible modules for the goja JavaScript engine) at {wt}. Work ONLY inside {wt}; never touch /repo or /verif and do not read anything under /verif. The sandbox is offline; before any go command run:
  export GOFLAGS=-mod=mod GOPROXY=off GOSUMDB=off GOTOOLCHAIN=local
The existing test suite is run with:  cd {wt} && go test -vet=off -count=1 ./...

Property that the library is supposed to satisfy (id {pid}: {p['title']}):
STATEMENT: {p['statement']}
QUANTIFIED OVER: {p['quantifier']['text']}
ANCHORED IN: {', '.join(p['anchors']['files'])}

Your task: make ONE small, realistic change to the library's non-test Go source (the kind of regression a maintainer could plausibly introduce in a refactor or 'optimisation') such that
  1. the repository still compiles and the WHOLE existing test suite still passes (run it at least twice; the eventloop tests are timing-sensitive), and
  2. the property above is now violated, but only for something specific: a particular interleaving, a fault at a particular point, a multi-step sequence of operations, an unusual input, or two cooperating sites that each look fine alone. Do NOT make a change that ordinary use would expose at once. {hint}
Then write a demonstration that FAILS with your change and PASSES on the original code: a Go test file (package-external or internal) or a small Go program placed under {wt}/seed_demo/ (it may be its own package inside the module; keep it out of the existing packages' test files so the existing suite is unaffected) with a README line telling how to run it. Verify both directions yourself (use `git stash` / `git diff` to flip between original and changed source; leave the worktree WITH your change applied at the end).

Do not modify existing *_test.go files. Do not change go.mod/go.sum. Keep the change to a few lines if you can.

When finished, write {wt}/seed_demo/meta.json with keys: property ("{pid}"), summary (one sentence: what was changed), needs (what is needed for the violation to manifest), demo_cmd (exact command, run from {wt}), files_changed. Then reply with: the `git diff` of the library change (excluding seed_demo), the demo command, its output with and without the change, and the test-suite result.""")
