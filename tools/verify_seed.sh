#!/bin/bash
# verify_seed.sh <name> [property]  : confirm a seeded change in /tmp/seed/<name> (suite passes, demo fails with / passes without), run
# the property's check against it, and store it under /verif/seeded/<name>/
set -u
name=$1
wt=/tmp/seed/$name
pid=${2:-${name:0:3}}
export GOFLAGS=-mod=mod GOPROXY=off GOSUMDB=off GOTOOLCHAIN=local
cd $wt || exit 2
demo=$(python3 -c "import json;print(json.load(open('seed_demo/meta.json'))['demo_cmd'])")
git diff -- . ':!seed_demo' > /tmp/seed/$name.diff
echo "== suite with change"; go test -vet=off -count=1 $(go list ./... | grep -v seed_demo) 2>&1 | grep -v "no test files" | tail -12; suite=${PIPESTATUS[0]}
echo "== demo with change (expect FAIL)"; (eval "$demo") > /tmp/seed/$name.with.log 2>&1; with=$?; tail -5 /tmp/seed/$name.with.log
git apply -R /tmp/seed/$name.diff || { echo "cannot revert the change"; exit 3; }
echo "== demo without change (expect PASS)"; (eval "$demo") > /tmp/seed/$name.without.log 2>&1; without=$?; tail -3 /tmp/seed/$name.without.log
git apply /tmp/seed/$name.diff
echo "suite=$suite with=$with without=$without"
# the check runs in a private copy of /verif (generated files, go.mod and the overlay are per-tree state), so /verif stays usable
copy=/tmp/vcopy-$name
rm -rf $copy; mkdir -p $copy
rsync -a --exclude .git --exclude .work --exclude replays /verif/ $copy/
mkdir -p $copy/replays $copy/.work
echo "== check $pid against the change (in $copy)"
( cd $copy && VERIF_REPO=$wt ./check $pid ) > /tmp/seed/$name.check.log 2>&1; crc=$?; grep -E "VIOLATION|KNOWN|theorems" /tmp/seed/$name.check.log
mkdir -p /verif/seeded/$name
rm -rf /verif/seeded/$name/replays; cp -r $copy/replays /verif/seeded/$name/replays 2>/dev/null
rm -rf $copy
cd /verif
mkdir -p seeded/$name
cp /tmp/seed/$name.diff seeded/$name/patch.diff
rm -rf seeded/$name/demo; cp -r $wt/seed_demo seeded/$name/demo
python3 - <<PY
import json
m=json.load(open('/verif/seeded/$name/demo/meta.json'))
m.update({"breaks_property":"$pid","confirmed":{"suite_passes_with_change": $suite==0, "demo_fails_with_change": $with!=0, "demo_passes_without_change": $without==0},
 "ran":["go test -vet=off -count=1 ./... (with change)","demo_cmd with change","demo_cmd with library change stashed","VERIF_REPO=<worktree> ./check $pid"],
 "check_result":{"exit":$crc,"lines":[l.strip() for l in open('/tmp/seed/$name.check.log') if 'VIOLATION' in l or 'KNOWN' in l or 'theorems' in l]},
 "detected": $crc==1})
json.dump(m,open('/verif/seeded/$name/meta.json','w'),indent=1)
print("stored seeded/$name detected=", $crc==1)
PY
