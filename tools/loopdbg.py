import sys; sys.path.insert(0, "/verif")
import vlib, json, subprocess, os, re
prof, cid = sys.argv[1], int(sys.argv[2])
n = sys.argv[3] if len(sys.argv) > 3 else "30"
rc,out,hb=vlib.build_harness("loop", overlay=True)
if rc: print(out); sys.exit(1)
env=dict(os.environ, VERIF_PROFILE=prof, VERIF_SEED=os.environ.get("VERIF_SEED","1"))
subprocess.run([".build/h_loop","/tmp/loop.json",n],env=env,check=True,cwd="/verif")
d=json.load(open("/tmp/loop.json"))
v,e,dt=vlib.run_cases_in_coq("C04","Cases.LoopCheck",d["cases"],shard_size=30)
print(v)
if cid < 0:
    if not v: sys.exit(0)
    cid = v[0][0]
c=[c for c in d["cases"] if c["id"]==cid][0]
os.makedirs("/verif/.work/dbg",exist_ok=True)
src = """From GN Require Import Cases.LoopCheck.
Open Scope Z_scope.
Definition c := %s.
Definition r := Eval vm_compute in m_diff (snd (replay (kind_of_list (c_kinds c)) init_after_setup mon0 (c_log c) 0)).
Print r.
Definition st (k : nat) := let s := fst (replay (kind_of_list (c_kinds c)) init_after_setup mon0 (firstn k (c_log c)) 0) in (jobcount s, jobs s, aux s, batch s, token s, canrun s, running s, terminated s, phase s, tph s, pending s, timers s).
""" % c["coq"]
open("/verif/.work/dbg/d.v","w").write(src)
out = subprocess.run(["coqc","-Q","/verif/coq","GN","/verif/.work/dbg/d.v"],capture_output=True,text=True)
print(out.stdout[-600:], out.stderr[-600:])
m = re.search(r"Some \((\d+)%nat, (\d+)\)", out.stdout)
if m:
    i = int(m.group(1))
    open("/verif/.work/dbg/d2.v","w").write(src + "Eval vm_compute in st %d.\n" % i)
    out = subprocess.run(["coqc","-Q","/verif/coq","GN","/verif/.work/dbg/d2.v"],capture_output=True,text=True)
    print(out.stdout[-900:], out.stderr[-300:])
    evs = re.findall(r"(L[PEO] \d+%nat .*?)(?=; L[PEO] |\] *;)", c["coq"])
    for k in range(max(0,i-14), min(len(evs), i+3)):
        print(k, evs[k][:150])
