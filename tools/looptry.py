import sys; sys.path.insert(0, "/verif")
import vlib, json, sys, subprocess, os
n=sys.argv[1] if len(sys.argv)>1 else "30"
rc,out,hb=vlib.build_harness("loop", overlay=True)
if rc: print(out); sys.exit(1)
for prof in ["fifo","terminate","stop","timers","count","overlap"]:
    env=dict(os.environ, VERIF_PROFILE=prof, VERIF_SEED=os.environ.get("VERIF_SEED","1"))
    subprocess.run([".build/h_loop","/tmp/loop.json",n],env=env,check=True)
    d=json.load(open("/tmp/loop.json"))
    v,e,dt=vlib.run_cases_in_coq("C04","Cases.LoopCheck",d["cases"],shard_size=30)
    print(prof, v[:10], e[:2], round(dt,1), d.get("impl_failures"))
