#!/bin/bash
# recheck_seeds.sh [id ...] : apply each stored seeded change to a scratch worktree of /repo's HEAD and run the property's
# check against it in a private copy of /verif; writes seeded/<id>/recheck.json and prints one line per seed.
# Parallelism: RECHECK_JOBS (default 4).
cd /verif
ids="$@"; [ -z "$ids" ] && ids=$(ls seeded)
one() {
  id=$1; pid=$(python3 -c "import json;print(json.load(open('/verif/seeded/$id/meta.json'))['breaks_property'])")
  wt=/tmp/recheck/wt-$id; copy=/tmp/recheck/v-$id
  rm -rf $wt $copy; mkdir -p /tmp/recheck
  git -C /repo worktree add --detach $wt >/dev/null 2>&1 || { echo "$id: cannot create worktree"; return; }
  if ! git -C $wt apply /verif/seeded/$id/patch.diff 2>/dev/null; then
    # a later fix: commit touched the same lines: merge the change onto HEAD (three-way) and keep the result only if it still builds
    if git -C $wt apply --3way /verif/seeded/$id/patch.diff >/dev/null 2>&1 && (cd $wt && GOFLAGS=-mod=mod GOPROXY=off GOSUMDB=off GOTOOLCHAIN=local go build ./... >/dev/null 2>&1); then
      git -C $wt reset -q; echo "$id ($pid): patch merged onto HEAD with --3way"
    else
      echo "$id ($pid): patch does not apply to HEAD"; git -C /repo worktree remove --force $wt; return
    fi
  fi
  mkdir -p $copy; rsync -a --exclude .git --exclude .work --exclude replays --exclude seeded /verif/ $copy/; mkdir -p $copy/replays $copy/.work
  ( cd $copy && VERIF_REPO=$wt timeout 2400 ./check $pid ) > /tmp/recheck/$id.log 2>&1; rc=$?
  python3 - <<PY
import json
lines=[l.strip() for l in open('/tmp/recheck/$id.log') if 'VIOLATION' in l or 'KNOWN' in l or 'theorems' in l]
with_input=[l for l in lines if l.startswith('VIOLATION') and 'no-failing-input-found' not in l]
res={"property":"$pid","exit":$rc,"lines":lines,"detected":$rc==1,"failing_input_found":bool(with_input)}
json.dump(res,open('/verif/seeded/$id/recheck.json','w'),indent=1)
print("$id ($pid): exit=$rc", "FAILING-INPUT" if with_input else ("tie-only" if $rc==1 else "MISSED"), "|", "; ".join(l.split('replay=')[-1].split('/')[-1] for l in lines if l.startswith('VIOLATION')))
PY
  rm -rf /verif/seeded/$id/replays; cp -r $copy/replays /verif/seeded/$id/replays 2>/dev/null
  git -C /repo worktree remove --force $wt; rm -rf $copy
}
export -f one
echo $ids | tr ' ' '\n' | xargs -P ${RECHECK_JOBS:-4} -I{} bash -c 'one {}'
