#!/bin/sh
# restore generated files (coq/Gen, harness/go.mod) for /repo after a run with VERIF_REPO pointing elsewhere
cd /verif
sed "s#@REPO@#/repo#" harness/go.mod.tmpl > harness/go.mod
cp /repo/go.sum harness/go.sum
./.build/translator /repo coq/Gen >/dev/null
