#!/usr/bin/env python3
"""hunt_prompt.py <pid>: prompt for a fresh sub-agent that looks for a violation of one property in the UNCHANGED library
(its own worktree /tmp/hunt/<pid>); it gets the property text only, nothing from /verif."""
import json, os, sys
pid = sys.argv[1]
V = os.path.dirname(os.path.dirname(os.path.abspath(__file__)))
for l in open(os.path.join(V, "properties.jsonl")):
    p = json.loads(l)
    if p["id"] == pid:
        break
print(f"""You are reviewing the Go library dop251/goja_nodejs (Node.js-compatible modules and an event loop for the goja JavaScript engine) for DEFECTS. You have your own scratch git worktree of the repository at /tmp/hunt/{pid} (detached HEAD, clean). Work ONLY inside that directory; do not read or touch /repo, /verif or other directories under /tmp. Never use `git stash`. Do not change the library's source: your job is to find inputs on which the code AS IT IS misbehaves.

Environment for every shell call (it does not persist): `export GOFLAGS=-mod=mod GOPROXY=off GOSUMDB=off GOTOOLCHAIN=local`. There is no network. The existing test suite is `go test -vet=off -count=1 ./...` (about 10 s) and passes.

The property the library is supposed to satisfy:

  {pid}: {p['title']}
  {p['statement']}
  (It is meant to hold over: {p['quantifier']['text']})
  Relevant code: {', '.join(p['anchors']['files'])}

Task: read the relevant code carefully and try to find a concrete input, call sequence, interleaving or history for which the UNCHANGED code violates this property as stated (stay inside what the property claims; things it explicitly leaves outside do not count). Think about: arguments whose conversion (toString/valueOf/Symbol.toPrimitive/getters) runs user code in the middle of an operation; unusual but legal values; sequences of three or more operations; state left behind by a failed or throwing call; aliasing of slices and maps; integer edge cases; re-entrancy; objects of one class passed where another is expected. Write small Go test programs under /tmp/hunt/{pid}/hunt_demo/ (its own package inside the module, importing the library) to try your ideas out - actually run them, do not speculate.

Spend your effort on finding a REAL violation. If you find one (or several), keep a minimal deterministic demonstration for each as a Go test in /tmp/hunt/{pid}/hunt_demo/ that FAILS on the unchanged code, and say exactly which clause of the property it violates. If after a thorough search you find none, say so and list what you tried (the ten most promising ideas and what the code did).

Final answer: for each finding - the input/sequence, observed vs expected behaviour, the clause violated, the file and function at fault, and the command that runs the demonstration (include the environment assignments in the command). Be precise and do not report anything you did not reproduce.""")
