#!/usr/bin/env python3
"""Regenerates MANIFEST.json from props.py (single source of truth for what is claimed)."""
import json, os, sys
sys.path.insert(0, os.path.dirname(os.path.abspath(__file__)))
from props import PROPS, NOT_APPLICABLE, HOOK_COMMITS

ALL = ["C%02d" % i for i in range(1, 21)]
checks = []
for pid in ALL:
    if pid not in PROPS:
        continue
    c = PROPS[pid]
    checks.append({
        "property_id": pid,
        "quick_cmd": "./check %s --tier quick" % pid,
        "thorough_cmd": "./check %s --tier thorough" % pid,
        "evidence_file": "/verif/evidence/%s.json" % pid,
        "replay_cmd_template": "./check %s --replay {path}" % pid,
        "engine": "coq-proof+correspondence",
        "level_claimed": {"category": "proof", "text": c["level_text"], "design_ref": c.get("design_ref", "DESIGN.md §6 " + pid)},
        "level_note": c["level_note"],
        "technique": c.get("technique", "machine-checked proof in Coq 8.16.1 of theorems about an executable Gallina model; "
                                        "model tied to the source by a translator (coq/Gen) and a differential correspondence run evaluated by vm_compute"),
    })
m = {
    "version": 1,
    "setup_cmd": "./setup.sh",
    "hooks": {
        "guard": "verif",
        "enable": "go build -tags verif (harness drivers); white-box files injected with go build -overlay",
        "baseline_off_cmd": "cd /repo && GOFLAGS=-mod=mod go test -vet=off -count=1 ./...",
        "source_commits": HOOK_COMMITS,
        "add_only": True,
    },
    "engines": [
        {"name": "coq-proof+correspondence", "path": "/verif/check", "serves_properties": [c["property_id"] for c in checks],
         "kind_free_text": "Coq 8.16.1 development under /verif/coq (models, specs, proofs, Properties/Cxx.v); translator "
                           "/verif/translator regenerates coq/Gen from /repo every run; Go harness /verif/harness runs the implementation, "
                           "cases are evaluated against the model and the spec oracle inside coqc (vm_compute)"}],
    "checks": checks,
    "notes": "See DESIGN.md. Every check rebuilds from /repo's working tree (VERIF_REPO overrides the path for self-tests).",
    "not_applicable": [{"property_id": p, "reason": r} for p, r in NOT_APPLICABLE.items() if p not in PROPS],
}
json.dump(m, open(os.path.join(os.path.dirname(os.path.abspath(__file__)), "MANIFEST.json"), "w"), indent=1)
print("MANIFEST.json: %d checks, %d not_applicable" % (len(checks), len(m["not_applicable"])))
