#!/bin/sh
# MANIFEST.setup_cmd: build the framework offline from files on disk only.
set -e
cd "$(dirname "$0")"
export GOFLAGS=-mod=mod GOPROXY=off GOSUMDB=off GOTOOLCHAIN=local
REPO="${VERIF_REPO:-/repo}"
mkdir -p .build .work evidence replays
( cd translator && go build -o ../.build/translator . )
./.build/translator "$REPO" coq/Gen
( cd coq && coq_makefile -f _CoqProject -o Makefile && timeout 3000 make -k -j"$(nproc)" ) || echo "setup: coq build reported errors (checks will report them per property)"
sed "s#@REPO@#$REPO#" harness/go.mod.tmpl > harness/go.mod
cp "$REPO/go.sum" harness/go.sum
for d in harness/cmd/*/; do
  n=$(basename "$d")
  ( cd harness && go build -tags verif -o ../.build/h_"$n" ./cmd/"$n" ) || echo "setup: harness $n did not build"
done
echo "setup done"
