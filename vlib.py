#!/usr/bin/env python3
"""Shared machinery of /verif/check: translator, Coq build, correspondence run, classification, evidence."""
import concurrent.futures
import hashlib
import json
import os
import re
import shutil
import subprocess
import sys
import time

VERIF = os.path.dirname(os.path.abspath(__file__))
REPO = os.environ.get("VERIF_REPO", "/repo")
COQ = os.path.join(VERIF, "coq")
BUILD = os.path.join(VERIF, ".build")
WORK = os.path.join(VERIF, ".work")
NPROC = os.cpu_count() or 4

GOENV = dict(os.environ, GOFLAGS="-mod=mod", GOPROXY="off", GOSUMDB="off", GOTOOLCHAIN="local",
             CGO_ENABLED=os.environ.get("CGO_ENABLED", "0"))

ALLOWED_AXIOMS = {
    # standard-library axioms that may appear (named in DESIGN.md §9)
    "ClassicalDedekindReals.sig_forall_dec", "ClassicalDedekindReals.sig_not_dec",
    "FunctionalExtensionality.functional_extensionality_dep", "Classical_Prop.classic",
    "functional_extensionality_dep", "classic", "sig_forall_dec", "sig_not_dec",
    "ProofIrrelevance.proof_irrelevance", "proof_irrelevance", "Eqdep.Eq_rect_eq.eq_rect_eq", "JMeq.JMeq_eq",
}


def log(*a):
    print("[check]", *a, file=sys.stderr, flush=True)


def _limit_mem(gb):
    def f():
        import resource
        resource.setrlimit(resource.RLIMIT_AS, (gb << 30, gb << 30))
    return f


def sh(cmd, cwd=None, env=None, timeout=None, check=False, capture=True, mem_gb=None):
    t0 = time.time()
    if mem_gb is None and not isinstance(cmd, str) and cmd and os.path.basename(cmd[0]) in ("coqc", "make", "coqchk"):
        mem_gb = 14   # a runaway conversion/unification must not exhaust the sandbox
    try:
        p = subprocess.run(cmd, cwd=cwd, env=env, timeout=timeout, shell=isinstance(cmd, str),
                           preexec_fn=_limit_mem(mem_gb) if mem_gb else None,
                           stdout=subprocess.PIPE if capture else None,
                           stderr=subprocess.STDOUT if capture else None, text=True)
        rc, out = p.returncode, p.stdout or ""
    except subprocess.TimeoutExpired as e:
        rc, out = 124, (e.stdout or "") if isinstance(e.stdout, str) else ""
        out += "\n[TIMEOUT after %ss]" % timeout
    if check and rc != 0:
        log("command failed:", cmd, "\n", out[-4000:])
        raise SystemExit(2)
    return rc, out, time.time() - t0


def repo_commit():
    rc, out, _ = sh(["git", "-C", REPO, "rev-parse", "--short", "HEAD"])
    dirty = sh(["git", "-C", REPO, "status", "--porcelain", "--untracked-files=no"])[1].strip()
    return out.strip() + ("+dirty" if dirty else "")


# ---------------------------------------------------------------- translator + Coq

def build_translator():
    os.makedirs(BUILD, exist_ok=True)
    sh(["go", "build", "-o", os.path.join(BUILD, "translator"), "."], cwd=os.path.join(VERIF, "translator"),
       env=GOENV, timeout=300, check=True)


def run_translator():
    """Regenerate coq/Gen from the repository's current working tree (write-if-changed)."""
    build_translator()
    rc, out, _ = sh([os.path.join(BUILD, "translator"), REPO, os.path.join(COQ, "Gen")], timeout=120)
    if rc != 0:
        log("translator failed:\n" + out)
    return rc, out


def coq_makefile():
    mk = os.path.join(COQ, "Makefile")
    cp = os.path.join(COQ, "_CoqProject")
    if not os.path.exists(mk) or os.path.getmtime(mk) < os.path.getmtime(cp):
        sh(["coq_makefile", "-f", "_CoqProject", "-o", "Makefile"], cwd=COQ, check=True)


def coq_make(targets=None, timeout=1500):
    """Full .vo build (never -vos) of the given targets (default: everything)."""
    coq_makefile()
    cmd = ["make", "-k", "-j%d" % NPROC] + (targets or [])
    rc, out, dt = sh(cmd, cwd=COQ, timeout=timeout)
    return rc, out, dt


def parse_assumptions(out):
    """Split coqc output of a Properties file into per-Print-Assumptions blocks; return list of axiom-name lists."""
    blocks = []
    cur = None
    for line in out.splitlines():
        if line.startswith("Closed under the global context"):
            blocks.append([])
            cur = None
        elif line.startswith("Axioms:"):
            cur = []
            blocks.append(cur)
        elif cur is not None:
            m = re.match(r"^([A-Za-z_][\w.']*)\s*$|^([A-Za-z_][\w.']*)\s*:", line)
            if m:
                cur.append(m.group(1) or m.group(2))
            elif not line.startswith(" ") and line.strip():
                cur = None
    return blocks


def check_property_file(pid, timeout=900, extra_targets=()):
    """Re-check Properties/<pid>.v (after making its dependencies). Returns dict."""
    vfile = "Properties/%s.v" % pid
    src = open(os.path.join(COQ, vfile)).read()
    theorems = re.findall(r"^\s*Theorem\s+([\w']+)", src, re.M)
    res = {"file": vfile, "theorems": theorems, "obligations": len(theorems), "discharged": 0,
           "axioms": [], "ok": False, "log": "", "bad_axioms": []}
    # dependencies first (incremental)
    rc, out, dt = coq_make(["Properties/%s.vo" % pid] + list(extra_targets), timeout=timeout)
    res["make_s"] = round(dt, 1)
    if rc != 0:
        res["log"] = out[-6000:]
        m = re.search(r'File "\./([^"]+)", line (\d+)', out)
        res["broken_at"] = "%s:%s" % (m.group(1), m.group(2)) if m else "make"
        return res
    # the statements file itself, always recompiled so that Print Assumptions is captured from this run
    rc, out, dt = sh(["coqc", "-Q", ".", "GN", "-w", "-notation-overridden,-deprecated-hint-without-locality",
                      vfile], cwd=COQ, timeout=timeout)
    res["log"] = out[-6000:]
    if rc != 0:
        m = re.search(r'File "\./([^"]+)", line (\d+)', out)
        res["broken_at"] = "%s:%s" % (m.group(1), m.group(2)) if m else vfile
        return res
    blocks = parse_assumptions(out)
    axioms = sorted({a for b in blocks for a in b})
    res["axioms"] = axioms
    res["assumption_blocks"] = len(blocks)
    res["bad_axioms"] = [a for a in axioms if a not in ALLOWED_AXIOMS and a.split(".")[-1] not in ALLOWED_AXIOMS]
    if len(blocks) < len(theorems):
        res["broken_at"] = "missing Print Assumptions (%d for %d theorems)" % (len(blocks), len(theorems))
        return res
    if res["bad_axioms"]:
        res["broken_at"] = "axioms outside the allow-list: " + ", ".join(res["bad_axioms"])
        return res
    res["discharged"] = len(theorems)
    res["ok"] = True
    return res


def hygiene_scan():
    """No Admitted / admit / Axiom / Parameter / Conjecture / guard switches anywhere in the development."""
    bad = []
    pat = re.compile(r"\b(Admitted|admit|Axiom|Axioms|Parameter|Parameters|Conjecture|Admit Obligations|"
                     r"Unset Guard Checking|Unset Positivity Checking|Unset Universe Checking|bypass_check|"
                     r"type-in-type|impredicative-set)\b")
    for root, _, files in os.walk(COQ):
        for f in files:
            if f.endswith(".v") or f == "_CoqProject":
                p = os.path.join(root, f)
                txt = open(p, errors="replace").read()
                txt_nc = re.sub(r"\(\*.*?\*\)", "", txt, flags=re.S)
                for m in pat.finditer(txt_nc):
                    bad.append("%s: %s" % (os.path.relpath(p, COQ), m.group(1)))
    return bad


# ---------------------------------------------------------------- harness

def build_harness(name, tags="verif", race=False, overlay=None):
    hdir = os.path.join(VERIF, "harness")
    gomod = os.path.join(hdir, "go.mod")
    tmpl = open(os.path.join(hdir, "go.mod.tmpl")).read().replace("@REPO@", REPO)
    if not os.path.exists(gomod) or open(gomod).read() != tmpl:
        open(gomod, "w").write(tmpl)
    shutil.copyfile(os.path.join(REPO, "go.sum"), os.path.join(hdir, "go.sum"))
    os.makedirs(BUILD, exist_ok=True)
    out = os.path.join(BUILD, "h_" + name + ("_race" if race else ""))
    cmd = ["go", "build", "-tags", tags, "-o", out]
    env = dict(GOENV)
    if race:
        cmd.insert(2, "-race")
        env["CGO_ENABLED"] = "1"
    if overlay:
        # white-box files injected into the eventloop package of the tree under test (never written into that tree)
        odir = os.path.join(hdir, "overlay")
        repl = {os.path.join(REPO, "eventloop", f): os.path.join(odir, f) for f in sorted(os.listdir(odir)) if f.endswith(".go")}
        ojson = os.path.join(BUILD, "overlay.json")
        with open(ojson, "w") as fh:
            json.dump({"Replace": repl}, fh)
        cmd += ["-overlay", ojson]
    cmd.append("./cmd/" + name)
    rc, o, dt = sh(cmd, cwd=hdir, env=env, timeout=600)
    return rc, o, out


def run_harness(binary, outjson, args=(), seed=1, tier="quick", timeout=900, extra_env=None):
    env = dict(os.environ, VERIF_SEED=str(seed), VERIF_TIER=tier, VERIF_REPO=REPO)
    if extra_env:
        env.update(extra_env)
    if os.path.exists(outjson):
        os.remove(outjson)
    rc, out, dt = sh([binary, outjson] + list(args), env=env, timeout=timeout)
    data = None
    if os.path.exists(outjson):
        try:
            data = json.load(open(outjson))
            if isinstance(data, dict):      # a Go nil slice is written as null
                for k in ("cases", "impl_failures", "notes"):
                    if data.get(k) is None:
                        data[k] = []
        except Exception as e:  # noqa
            out += "\n[bad harness json: %s]" % e
    return rc, out, data, dt


# ---------------------------------------------------------------- running cases inside Coq

VERDICT_RE = re.compile(r"\(\s*(\d+)(?:%N)?\s*,\s*(Diff|SpecFail)\s+(\d+)(?:%N)?\s*\)")


def _run_shard(args):
    path, timeout = args
    rc, out, dt = sh(["coqc", "-Q", ".", "GN", "-w", "-notation-overridden", path], cwd=COQ, timeout=timeout)
    return path, rc, out, dt


def run_cases_in_coq(pid, module, cases, shard_size=120, timeout=600, imports=()):
    """cases: list of dicts with id, coq. Returns (verdicts: list[(id, kind, code)], errors: list[str], seconds)."""
    wdir = os.path.join(WORK, pid)
    shutil.rmtree(wdir, ignore_errors=True)
    os.makedirs(wdir, exist_ok=True)
    shards = []
    cases = cases or []
    live = [c for c in cases if c["coq"] != "crashed"]
    for i in range(0, len(live), shard_size):
        chunk = live[i:i + shard_size]
        path = os.path.join(wdir, "cases_%d.v" % (i // shard_size))
        with open(path, "w") as f:
            f.write("From GN Require Import Common.Base %s.\n" % " ".join([module] + list(imports)))
            f.write("Definition cases : list (N * case) := [\n")
            f.write(";\n".join("(%d%%N, %s)" % (c["id"], c["coq"]) for c in chunk))
            f.write("\n].\nDefinition R := Eval vm_compute in run_cases cases.\nPrint R.\n")
        shards.append((path, timeout))
    verdicts, errors = [], []
    t0 = time.time()
    with concurrent.futures.ThreadPoolExecutor(max_workers=NPROC) as ex:
        for path, rc, out, dt in ex.map(_run_shard, shards):
            if rc != 0:
                errors.append("%s: rc=%d %s" % (os.path.basename(path), rc, out[-1500:]))
                continue
            flat = " ".join(out.split())
            m = re.search(r"R\s*=\s*(\[.*?\])\s*:\s*list", flat)
            if not m:
                errors.append("%s: cannot parse output: %s" % (os.path.basename(path), flat[-500:]))
                continue
            for vm in VERDICT_RE.finditer(m.group(1)):
                verdicts.append((int(vm.group(1)), vm.group(2), int(vm.group(3))))
    return verdicts, errors, time.time() - t0


# ---------------------------------------------------------------- known findings, replays, evidence

def load_known(pid):
    p = os.path.join(VERIF, "known_findings.json")
    if not os.path.exists(p):
        return []
    return [e for e in json.load(open(p)) if e.get("property") == pid and e.get("status") == "known"]


def match_known(entries, kind, code, tags):
    """kind: Diff | SpecFail | Impl ; code: int or oracle name."""
    for e in entries:
        m = e["match"]
        if m.get("kind", "SpecFail") != kind:
            continue
        if "code" in m and m["code"] != code:
            continue
        if "codes" in m and code not in m["codes"]:
            continue
        if any(t not in tags for t in m.get("tags_all", [])):
            continue
        if any(t in tags for t in m.get("tags_none", [])):
            continue
        if m.get("tags_any") and not any(t in tags for t in m["tags_any"]):
            continue
        return e
    return None


def write_replay(pid, name, payload):
    d = os.path.join(VERIF, "replays")
    os.makedirs(d, exist_ok=True)
    p = os.path.join(d, "%s_%s.json" % (pid, name))
    payload = dict(payload, property=pid, repo_commit=repo_commit())
    json.dump(payload, open(p, "w"), indent=1, ensure_ascii=False, default=str)
    return p


def write_evidence(pid, ev):
    d = os.path.join(VERIF, "evidence")
    os.makedirs(d, exist_ok=True)
    p = os.path.join(d, "%s.json" % pid)
    json.dump(ev, open(p, "w"), indent=1, ensure_ascii=False, default=str)
    return p


TRUSTED_COMMON = [
    "Coq 8.16.1 kernel (coqc; vm_compute used for witnesses, finite decisions and case evaluation; native_compute not used)",
    "translator /verif/translator (go/ast pattern matcher -> coq/Gen/*.v): that the emitted facts are the facts in the source",
    "correspondence harness /verif/harness (generators, canonicalisation) and /verif/vlib.py (sharding, verdict parsing)",
    "Go compiler/runtime/stdlib and goja are modelled or assumed, not verified",
]
