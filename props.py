"""Per-property configuration of /verif/check."""

PROPS = {}
HOOK_COMMITS = ['46951c9', 'b770325']
# properties without a registered check yet (kept current; the aim is an empty list)
NOT_APPLICABLE = {}

PROPS["C20"] = dict(
    harness="process", module="Cases.C20Check",
    level_text="Theorems C20_split / C20_exact / C20_isolated / C20_snapshot / C20_snapshot_stable / C20_snapshot_taken_at_require (Coq, closed under the "
               "global context; the last two over histories in which the host changes its own environment) state exactness of the "
               "split at the first '=' for all names and values, that the map holds exactly the host's pairs, and non-interference between "
               "runtimes for every history; the split constants come from the source via the translator and the model is replayed against "
               "child processes with generated environments",
    level_note="Proof is about the Gallina model Model/Process.v; tie = Gen/ProcessEnv.v (SplitN separator/count/indices extracted from "
               "process/module.go) + differential histories in child processes. Trusted: os/exec environment passing, goja's Go-map wrapper.",
    rule="case = one child process with a generated environment (0..100 variables, names/values over an alphabet with "
         "empty values, several '=', spaces, non-ASCII) and a history of require/assign/delete over 1-3 runtimes sharing "
         "one Registry, interleaved with os.Setenv/os.Unsetenv by the host (also right after a require nobody has read from yet), observed after "
         "every operation that is not marked quiet; non-trivial = some value is empty or contains '=', or >= 2 runtimes "
         "with at least one mutation; distinct by hash of the canonical case",
    codes={"Diff1": "model replay of the history differs from the observed process.env of some runtime",
           "SpecFail1": "process.env of the acting runtime is not exactly the host variables modified by its own writes",
           "SpecFail2": "an operation in one runtime, or a later change of the host environment, changed what another runtime sees",
           "SpecFail3": "os.Environ() of the host differs from its own history (initial variables changed only by the host's own Setenv/Unsetenv)",
           "Implchild-crashed": "the probe process crashed"},
    trusted=["os/exec passes the generated environment unchanged to the child; goja's map[string]string wrapper "
             "(Object.entries, assignment, delete) is assumed to act on the Go map of that runtime only"],
    assumptions=["variables have distinct names without '=' and NUL, values are valid UTF-8 (property's domain)",
                 "entries without '=' are outside the quantifier (Lemma entry_without_eq_panics records the Go panic)"],
)

PROPS["C19"] = dict(
    harness="util", module="Cases.C19Check",
    level_text="Theorem C19_format_spec proves, for every code-point string and every argument list, that the scanner as written in "
               "util/module.go (pending-percent flag, positional cursor) computes Node's restricted format specification; C19_console proves one "
               "message per call routed by method for every call history. The directive table and the console method/sink table are regenerated "
               "from the source each run; the model is run against the implementation on '%'-rich strings",
    level_note="Proof is about Model/Format.v. Conversions String(a), String(Number(a)), JSON.stringify(a) are oracles evaluated by goja in the "
               "same runtime. Tie: Gen/UtilFormat.v (directive switch, console table) + differential run + spec oracle applied to the implementation's outputs.",
    rule="80% util.format calls over strings assembled from a '%'-rich piece alphabet (every position incl. last, multi-byte and astral "
         "characters) x 0-3 arguments from 55 JS values (8-12% of the calls pass one of them as first argument instead of a string); 20% console histories of 1-6 calls with a recording Printer; non-trivial = at least one "
         "'%' and one argument (format) or >= 2 calls (console); distinct by hash of the canonical case",
    codes={"Diff1": "model js_format differs from util.format", "Diff2": "model console sinks differ from the recording printer",
           "SpecFail1": "util.format result differs from the specification (literal kept / positional / %% / surplus)",
           "SpecFail2": "console messages differ from format of the call's arguments or went to the wrong sink",
           "SpecFail3": "number of delivered messages differs from the number of console calls",
           "Implformat-threw": "util.format threw", "Implconsole-threw": "console call threw",
           "Implconsole-message-is-not-format-of-arguments": "a console call delivered something other than util.format of the same arguments (computed by a separate "
                                                             "call in the same runtime), or to another sink, or out of order"},
    trusted=["goja: String(), ToNumber(), JSON.stringify, conversion of JS strings to Go runes (well-formed strings only)"],
    assumptions=["Symbols, BigInts, custom inspection, lone surrogates are outside the claim"],
)

PROPS["C12"] = dict(
    harness="urlsp", module="Cases.C12Check",
    level_text="C12_refines_list: for every operation history the object as written (index-j compaction loops over a mutable array, the stale "
               "copy in set, live-index iterators) makes exactly the observations of the WHATWG list; C12_sort_sorted/_stable; C12_roundtrip: "
               "parse(serialize l) = l for all lists of byte-string pairs, resting on C12_table_ok, a decidable predicate evaluated on the escape "
               "table regenerated from url/escape.go; C12_parse_spec: the parser is the WHATWG urlencoded parser for all byte strings",
    level_note="Proof is about Model/SearchParams.v (hand-written mirror of urlsearchparams.go/nodeurl.go/escape.go). Tie: Gen/UrlTables.v (tables, "
               "upperhex, ishex/unhex ranges from the source) + differential histories/parses in goja + WHATWG spec oracle on the implementation's "
               "outputs. sort.Stable is modelled by a stable insertion sort (validated by the run). Mutation of the list from inside a forEach "
               "callback is outside the modelled domain.",
    rule="70% histories: constructor form (none/string/record/array of pairs/another URLSearchParams/iterator) + 1-10 operations over a small "
         "alphabet of names/values with duplicates, empty, non-ASCII, reserved characters, live iterators interleaved with mutations, and "
         "re-parse of toString(); 30% parsing of strings assembled from pieces with '%', '+', '&', '=', '?', malformed escapes; non-trivial = "
         ">= 3 operations with a mutation, or a parsed string with a special byte; distinct by hash",
    codes={"Diff1": "model replay differs from the observations", "Diff2": "model parse differs from new URLSearchParams(q)",
           "SpecFail1": "observations differ from the WHATWG list (or toString()+parse does not give the same list)",
           "SpecFail2": "new URLSearchParams(q) differs from the WHATWG urlencoded parser",
           "Implcopy-shares-state-with-its-source": "operations on new URLSearchParams(other) changed what `other` lists",
           "Implhistory-threw": "a history threw",
           "ImplforEach-is-not-the-live-walk-of-the-list": "forEach, with a callback that changes the list at one visit, did not visit what for...of (the live-index iterator of "
                                                            "the model) visits with the same callback, or left another list"},
    trusted=["goja: iteration protocol, Array.from, JSON.stringify of results, UTF-16 <-> UTF-8 conversion of well-formed strings", "sort.Stable"],
    assumptions=["%XX runs decoding to ill-formed UTF-8 are outside the round-trip claim", "names in record constructors are distinct and not integer-like"],
)

PROPS["C16"] = dict(
    harness="jsonmod", module="Cases.C16Check",
    level_text="C16_airtight: for every text over all Unicode scalar values and every continuation, the literal produced by the escaper lexes, "
               "by the ECMAScript double-quoted string-literal grammar, as exactly one literal whose value is the text; C16_source: with the pieces "
               "generated from getCompiledSource the compiled source is the wrapper around module.exports = JSON.parse(<that literal>). Hence the "
               "module value is JSON.parse(text) or its SyntaxError and nothing of the text is executed",
    level_note="Proof is about Model/JsonModule.v: a model of Go's encoding/json string encoder (validated against json.Marshal itself on every case) "
               "and of the JS string-literal lexer (goja's lexer is trusted to implement it). Tie: Gen/RequireGlue.v (extension test, wrapper pieces, "
               "escaper identity from the source) + run-time oracle JSON.stringify(require(f)) === JSON.stringify(JSON.parse(text)) in the same runtime. "
               "Ill-formed UTF-8 contents are covered by the run-time oracle only.",
    rule="contents: 50% valid JSON documents with strings over quotes, back-slashes, line terminators, U+2028/9, controls, astral and "
         "non-printable code points and all escape forms; 20% near-JSON; 30% adversarial assemblies of wrapper delimiters; 4% with ill-formed "
         "UTF-8 appended; non-trivial = contains a delimiter/escape character or non-ASCII; distinct by hash",
    codes={"Diff1": "model of the escaper differs from json.Marshal", "SpecFail1": "the literal does not lex back to the text with the wrapper suffix left over",
           "Implmodule-differs-from-JSON.parse": "required value differs from JSON.parse(text)",
           "Implcode-executed": "sentinel global set: file content was executed",
           "Implglobals-changed": "global object changed", "Implinvalid-json-did-not-throw-SyntaxError": "invalid JSON did not throw SyntaxError"},
    trusted=["goja's lexer implements the ES string-literal grammar; JSON.parse/JSON.stringify of goja", "encoding/json string encoder (modelled, compared on every case)"],
    assumptions=["file text is taken as its UTF-8 decoding (ill-formed bytes become U+FFFD on both sides of the oracle)"],
)

PROPS["C10"] = dict(
    harness="bufnum", module="Cases.C10Check", shard=150,
    level_text="For every numeric method descriptor regenerated from buffer.go (coercions, the offset/byteLength guards as int64-wrap expression "
               "ASTs, the value-range guards, the store/load primitive) the theorems state, for every buffer, value, offset and byteLength: the "
               "write succeeds iff representable and in range, stores exactly the two's-complement / IEEE bytes, changes nothing else, returns "
               "offset+width; the read decodes by the same encoding and read(write v) = v; otherwise a Range/TypeError with the buffer untouched, "
               "and no Go panic (slice bounds) is reachable",
    level_note="Proof is about Model/Buffer.v interpreting Gen/BufferMethods.v (descriptors, guards, registrations, goutil coercion rules "
               "generated from the source every run). goja's ToInteger/ToFloat and Go's float32() rounding enter as oracles (the latter is "
               "modelled in Z arithmetic and compared on every case). Fractional values for integer methods are truncated first (goja ToInteger), "
               "as the implementation does; float32 magnitudes above MaxFloat32 throw (pinned by the project's tests).",
    rule="every installed read*/write* method in turn; 55% structured mostly-valid calls (value at a power-of-two boundary of the width or "
         "random in range, offset inside or at the edge), 45% hostile (offsets -1, len-w+1, 2^31, 2^53, 2^63-w.., 1e30, NaN, non-numbers; values "
         "beyond 64 bits, negative BigInts for unsigned, denormals, NaN, +-0, +-Infinity; byteLength 0,7,8,fractional); non-trivial = offset "
         "within 1 of the buffer edge or near 2^63; distinct by hash",
    codes={"Diff1": "model result/bytes differ", "Diff2": "model error class differs or buffer changed", "Diff3": "model outcome kind differs",
           "SpecFail1": "wrong bytes, stray byte or wrong return value", "SpecFail2": "wrong error class or buffer changed by a rejected call",
           "SpecFail3": "rejected a representable in-range value", "SpecFail4": "accepted a value/offset that must be rejected",
           "SpecFail5": "Go panic escaped", "SpecFail6": "hang", "SpecFail7": "installed numeric method unknown to the specification table"},
    trusted=["goja ToInteger/ToFloat/BigInt export; Go float32 conversion (modelled, compared)"],
    assumptions=["fractional offsets and float32 overflow are outside the claim (property text)"],
)

PROPS["C11"] = dict(
    harness="bufstr", module="Cases.C11Check", shard=150,
    level_text="Round-trip theorems for ALL byte sequences (hex, base64, base64url; utf8 for every well-formed sequence), hex stops at the first "
               "invalid pair, toString(enc,start,end) = encoding of the clamped sub-range for every start/end and never traps, the fill pattern is "
               "repeated cyclically and never hangs (the doubling loop as written), write keeps the longest prefix of whole characters, array-likes "
               "are stored modulo 256; the codec table and delegation are regenerated from buffer.go",
    level_note="Proof is about Model/Codecs.v + Model/BufferStrings.v (models of encoding/hex, encoding/base64, dop251/base64dec, x/text UTF-8 and of "
               "the entry points as written). The library codecs are dependencies: their models are validated by the differential run. Agreement of "
               "entry points (from / write / alloc fill / DecodeBytes / EncodeBytes), copy-vs-share and equals are run-time oracles. For ill-formed "
               "UTF-8 only agreement is checked, not the replacement policy.",
    rule="mix of: round trips b -> toString(enc) -> from (bytes: arbitrary, ASCII, well-formed multi-byte, every ill-formed kind); toString ranges "
         "with hostile start/end; strings over each alphabet + padding, line breaks, garbage, lone surrogates decoded by every entry point; "
         "write with hostile offset/length and multi-byte strings that do not fit; alloc fill patterns (empty, longer, undecodable); array-likes "
         "with hostile elements; non-trivial = non-empty input that exercises leniency/clamping; distinct by hash",
    codes={"Diff1": "toString differs", "Diff2": "Buffer.from(string) differs from the model decoder", "Diff3": "model round trip differs",
           "Diff4": "write differs", "Diff5": "fill differs", "Diff6": "array-like differs",
           "SpecFail1": "Buffer.from(b.toString(enc), enc) is not b", "SpecFail2": "toString is not the encoding of the clamped sub-range",
           "SpecFail3": "fill is not the cyclic repetition of the decoded pattern", "SpecFail4": "array-like element not stored modulo 256",
           "SpecFail5": "Go panic escaped", "SpecFail6": "hang",
           "SpecFail7": "write did not store exactly the whole characters / bytes that fit in min(length, room)"},
    trusted=["goja typed arrays / ArrayBuffer sharing; x/text UTF-8 transcoders, encoding/hex, encoding/base64, dop251/base64dec (modelled, compared)"],
    assumptions=["latin1/ascii/utf16le are not implemented by the library and are outside the claim"],
)


def _c09_inventory(data):
    """C09_inventory: the Buffer.prototype methods found in the runtime are exactly the registrations the translator saw."""
    import os, re
    gen = open(os.path.join(os.path.dirname(os.path.abspath(__file__)), "coq", "Gen", "BufferMethods.v")).read()
    m = re.search(r"Definition registrations .*?:= \[(.*?)\]\.", gen, re.S)
    regs = set(re.findall(r'\("([A-Za-z0-9_]+)", "', m.group(1))) if m else set()
    inv = set()
    if not data.get("extra", {}).get("inventory"):
        return
    for t in data.get("extra", {}).get("inventory", []):
        mm = re.match(r'Buffer\.prototype\["([A-Za-z0-9_]+)"\]$', t)
        if mm:
            inv.add(mm.group(1))
    if regs != inv:
        data.setdefault("impl_failures", []).append({
            "case_id": -1, "oracle": "inventory-differs-from-translated-registrations", "tags": [],
            "detail": {"only_in_runtime": sorted(inv - regs), "only_in_source_tables": sorted(regs - inv)}})
    data.setdefault("extra", {})["inventory_checked_against_gen"] = len(inv)


PROPS["C09"] = dict(
    harness="hostile", module=None, post=_c09_inventory, harness_timeout=1500,
    level_text="C09_no_trap_buffer / C09_no_trap_other: every index, slice and make of the Buffer natives, of url/escape.go, valueToURLPort and "
               "util's js_format — a list of 136 verification conditions GENERATED from the source by symbolic execution, each with the guards "
               "that precede the operation — holds for every int64 value of every variable (wrap-around arithmetic) and every slice length; "
               "C09_numeric_never_panics, C09_fill_terminates, C09_toString_never_traps for the modelled natives. Everything else that is "
               "installed (natives that call back into JavaScript or goja: iteration, JSON, reflection-based conversion, net/url) is covered by "
               "the hostile-argument run only: that part is a test, not a proof",
    level_note="Proof covers partial Go operations in straight-line natives; the VC generator (translator/vc.go) is trusted to enumerate them and to "
               "carry the path conditions faithfully (conditions it cannot translate are dropped, which only weakens hypotheses). Handle conversion of "
               "clear* arguments by goja reflection, recursion depth of Buffer.from, and all natives outside the VC lists rely on the run-time oracle: "
               "each call under try/catch in the script, recover() and a watchdog in the harness.",
    rule="every installed function/method/constructor/accessor (inventory walked at run time: require, Buffer + prototype, URL + accessors, "
         "URLSearchParams + iterator, url module, util, console, process, six timer functions) in turn, 0-4 arguments from the property's hostile "
         "alphabet (80 values incl. throwing valueOf/toString/toPrimitive, hostile array-likes, typed arrays, proxies, handles of other kinds), "
         "natural or foreign receiver; sizes between 64 MiB and 2^32 excluded; non-trivial = at least one hostile argument or a foreign receiver",
    codes={"Implgo-panic-escaped": "a Go run-time panic escaped into the embedding program", "Implhang": "the call did not return within the watchdog",
           "Impluncatchable-error": "an error the script's try/catch could not catch",
           "Implinventory-differs-from-translated-registrations": "installed Buffer methods differ from the registrations the translator extracted"},
    trusted=["goja (argument conversion by reflection, iteration protocol, exception propagation)", "the watchdog / recover() plumbing of the harness"],
    assumptions=["time bounded by the size of the arguments: allocation sizes above 64 MiB are not exercised"],
)

_REQ_CODES = {"Diff1": "model event log (outcomes, identities, exports seen) differs", "Diff2": "model selects another file / native implementation",
              "Diff3": "evaluation counters differ", "Diff4": "SourceLoader call log differs", "Diff5": "native loader invocation count differs",
              "SpecFail1": "the file obtained is not the one the Node.js algorithm selects (or wrong failure kind)",
              "SpecFail2": "a bare / node: name yielded an implementation other than the registrations prescribe",
              "SpecFail3": "the same native name yielded two different objects", "SpecFail4": "a native loader ran more than once in one runtime",
              "SpecFail5": "two requires of one file without re-evaluation returned different exports, or a re-evaluation without a failure in between",
              "Implthrown-value-not-identical": "the value caught by the requirer is not the thrown value", "Implrequire-crashed": "require crashed",
              "Implrealfs-one-file-two-modules": "real directory with symbolic links: requests that the resolver canonicalises to one file gave two modules or two evaluations",
              "Implrealfs-require-failed": "real directory with symbolic links: a request failed",
              "Implthrown-value-did-not-reach-the-requirer": "a module body threw, but the require() evaluating it did not report that very value next",
              "Implmodule-body-completed-twice": "the body of one file ran to its end twice in one runtime (only a module whose evaluation failed is evaluated afresh)"}

_REQ_TRUST = ["goja: evaluation of the rendered JavaScript (assignment, call, try/catch, throw, Map identity), CaptureCallStack source names",
              "path/filepath Join/Clean/Dir/Base (modelled on a cleaned representation, validated by the run)"]

PROPS["C01"] = dict(harness="reqmod", module="Cases.ReqCheck", env={"VERIF_PROFILE": "cache"}, shard=60, codes=_REQ_CODES,
    level_text="C01_invariant_reachable: for every file tree, every module-program assignment (trees, DAGs, cycles, self-requires, throws anywhere), "
               "every fuel and every sequence of top-level calls, the reached state satisfies the cache invariant (every cached module is cached under "
               "its own resolved path; unique keys); C01_identity (one module per file under all spellings), C01_cached_not_reentered (no second "
               "evaluation, cycles cut, exports as populated so far), C01_in_progress_stays, C01_throw_same_value, C01_failure_uncached",
    level_note="Proof is about Model/Require.v, an executable big-step model of resolve/loadModule/loadNative with open recursion. One deviation from "
               "the code is documented in the model: the alias write after a successful resolution keeps an entry that nested requires wrote for the same "
               "path (the code overwrites; equal by determinism of the candidates, observed by the correspondence, not proved). Tie: differential "
               "histories (identities via a JS Map, counters, loader log) + trace oracles independent of the model.",
    rule="module graphs over /vr/app with 2-4 mutually requiring files (cycles of length 1..4), set/throw/caught and uncaught requires at random "
         "positions, json/invalid-json/directory/node_modules targets, packages whose main names a file or a directory (with and without a competing "
         "root index), 7 spellings per file, 2-6 top-level calls from JavaScript and from Go with "
         "retries after failures; non-trivial = at least 2 files; distinct by hash",
    trusted=_REQ_TRUST, assumptions=["the file tree does not change while the runtime lives"])
PROPS["C02"] = dict(harness="reqmod", module="Cases.ReqCheck", env={"VERIF_PROFILE": "resolve"}, shard=60, codes=_REQ_CODES,
    level_text="C02_selects_node_file: for every tree, every absolute requiring directory and every request the code's candidate order (as written, "
               "incl. the node_modules walk with its duplicate probes) selects the file or failure the Node.js manual's algorithm selects; "
               "C02_bare_never_relative; C02_invalid; C02_io_error_reported; C02_history_independent / C02_node_file_in_every_state: in every state "
               "reachable by any sequence of requires (any module graph, cycles, failures) a file-or-directory request yields the module of the file "
               "the stateless probing order - hence the Node.js algorithm - selects, so the caches never change the answer; "
               "C02_bare_history_independent / C02_bare_node_file_in_every_state: the same for bare names through r.nodeModules (NUL-free "
               "directory and name); C02_paths_canonical "
               "(parse/Join/Dir produce clean paths and parse(render p) = p)",
    level_note="Proof is about the candidate lists of Model/Require.v (shared with the stateful model used for C01) against Spec/NodeResolve.v, a "
               "transcription of 'All together' from the Node manual restricted to what the property claims; Proofs/RequireSelect.v carries the selection "
               "through the stateful model (SInv: every r.modules key is a loadable file, every r.resolved and r.nodeModules entry is what select "
               "chooses for its key). Outside: main target missing, exports/"
               "imports, global folders, requests ending in '/', a directory named node_modules directly inside node_modules. The link between "
               "candidate lists and loader calls is validated by the SourceLoader call log of every case. Real-directory configuration with the "
               "default resolver (symlinks) is not exercised.",
    rule="trees with competing candidates for one name at 7 places (file, .js, .json, directory with package.json main valid/empty/invalid/"
         "unreadable, index.js/.json, nested and ancestor node_modules), loader I/O errors, slash-names whose join collides with a child "
         "directory, a main directory that is a package of its own required before the outer package, functions that require lazily "
         "defined in one directory and called while a module of another directory is being evaluated; 2-8 requests from 5 locations; "
         "non-trivial = at least 2 files; distinct by hash",
    trusted=_REQ_TRUST, assumptions=["pure path resolver (filepath.Join); linux"])
PROPS["C15"] = dict(harness="reqmod", module="Cases.ReqCheck", env={"VERIF_PROFILE": "native"}, shard=60, codes=_REQ_CODES,
    level_text="C15_registration_only: in every state reachable by any history of prefixed, unprefixed and file requests, every cached bare or node: "
               "name holds the implementation the registrations alone prescribe; C15_first_lookup; C15_same_object (identical object, loader once); "
               "C15_node_prefix_alias",
    level_note="Proof is about load_native and the caches of Model/Require.v, for registration sets whose native names are unprefixed (property's domain). "
               "Per-runtime instances: each runtime has its own state record by construction; sharing one Registry among runtimes is exercised by C17.",
    rule="registration sets over registry/global/core with overlaps, files named like modules next to scripts with relative and absolute names, "
         "3-9 requests mixing bare, node: and file spellings from JavaScript and Go; loader invocation counters and markers observed",
    trusted=_REQ_TRUST, assumptions=["global registrations are process-wide and fixed for the run"])


# ---------------------------------------------------------------- event loop (C03..C08): one model, one harness, six profiles
_LOOP_CODES = {
    "Diff1": "the model cannot take an observed event (program order or guard differs)",
    "Diff2": "white-box state before a grant (jobCount, len(jobs), len(auxJobs), token, canRun, running, terminated) differs from the model",
    "Diff5": "the callbacks started by a step differ from those the model predicts",
    "Diff6": "model: not everything accepted was executed at the end of the run", "Diff7": "model job count differs at the end",
    "SpecFail1": "two callbacks of one loop were executing at the same time",
    "SpecFail2": "a callback started while the loop was stopped (not running, not inside Terminate)",
    "SpecFail3": "RunOnLoop callbacks did not run exactly once each in the order their submissions took effect (or a refused one ran)",
    "SpecFail4": "a timeout or immediate callback ran twice",
    "SpecFail5": "a callback ran after its job had been cleared / cancelled by Terminate",
    "SpecFail6": "Run() returned while live jobs remained",
    "SpecFail7": "Stop() returned a number different from the live jobs",
    "SpecFail8": "RunOnLoop/SetTimeout/SetInterval result does not match the terminated state (accepted while terminated, or refused while not)",
    "SpecFail9": "jobCount is not zero after the final Terminate",
    "SpecFail10": "loop.jobs is not empty after the final Terminate",
    "SpecFail12": "the loop left through the canRun test although no Stop/StopNoWait was requested since it was (re)started",
    "SpecFail11": "a timeout/interval requested before Terminate() returned, whose callback had not started by then, ran afterwards",
    "Implstuck": "no thread can make progress (a call that must return does not)",
    "Implcallbacks-overlap": "callback started while another was executing (harness counter)",
    "Impltimer-early": "a timer callback ran before its delay had elapsed",
    "Impltimer-arguments-wrong": "a timer callback did not receive the extra arguments given at creation",
    "Implaccepted-function-left-waiting": "queue non-empty, wake-up channel empty, loop blocked in select, nobody about to wake it",
    "Implapi-call-panicked": "an API call panicked", "Implgoroutine-left-after-terminate": "a timer/interval goroutine outlived Terminate()",
    "Impljobs-left-after-terminate": "loop.jobs not empty when Terminate returned", "Impljobs-index-broken": "jobs[k].idx != k",
    # free-running phase (no parking, no model): oracles on the observations alone
    "Implfree-callbacks-overlap": "free run: a callback began while another was executing",
    "Implfree-callback-while-stopped": "free run: a callback was executing between the return of Stop()/Run() and the next start",
    "Implfree-accepted-not-run-once": "free run: a function for which RunOnLoop returned true did not run exactly once by the end of Terminate()",
    "Implfree-fifo-broken": "free run: functions of one submitter ran out of submission order",
    "Implfree-refused-ran": "free run: a function for which RunOnLoop returned false ran",
    "Implfree-accepted-function-never-ran": "free run: a function accepted by a running loop did not run within 3 s",
    "Implfree-timeout-ran-twice": "free run: a timeout callback ran twice",
    "Implfree-ran-after-clear": "free run: a timeout ran although a callback had cleared it before it fired",
    "Implfree-stop-count-wrong": "free run: Stop() returned a number different from the timers set and not cleared",
    "Implfree-run-did-not-return-at-quiescence": "free run: Run() did not return although no live work existed (after Terminate)",
    "Implfree-run-did-not-return": "free run: Run() with only short timeouts pending did not return",
    "Implfree-stop-did-not-return": "free run: Stop() did not return within 4 s",
    "Implfree-run-did-not-return-after-stop": "free run: Run() still blocked 3 s after Stop() returned",
    "Implfree-terminate-did-not-return": "free run: Terminate() did not return within 5 s",
    "Implfree-goroutine-left-after-terminate": "free run: a timer/interval goroutine outlived Terminate()",
    "Implfree-api-call-panicked": "free run: an API call panicked",
    "Implfree-run-returned-before-quiescence": "free run: Run() returned although a timeout it had set had not run",
    "Implfree-ran-after-terminate": "free run: work requested before Terminate() returned ran after the restart",
    "Implfree-accepted-not-run-by-terminate": "free run: functions accepted before Terminate() had not all run when it returned",
    "Implfree-accepted-while-terminated": "free run: RunOnLoop/SetTimeout/SetInterval accepted work on a terminated loop that had not been started again",
    "Implfree-refused-after-restart": "free run: a restarted loop refused work",
    "Implfree-scenario-did-not-finish": "free run: a scenario did not finish within 40 s (an API call never returned)",
    "Implfree-uncleared-timeout-never-ran": "free run: a short timeout set on a loop that was started and never stopped did not run",
    "Implfree-timer-fired-early": "free run: a timeout or interval whose delay is an hour or more (up to 1e300 ms and Infinity) ran within the seconds the scenario lasts, "
                                  "or the callback of a set call that threw ran",
}
_FREE = {
    "C03": ["Implfree-callbacks-overlap", "Implfree-callback-while-stopped", "Implfree-api-call-panicked"],
    "C04": ["Implfree-accepted-not-run-once", "Implfree-fifo-broken", "Implfree-refused-ran", "Implfree-accepted-function-never-ran",
            "Implfree-accepted-not-run-by-terminate"],
    "C05": ["Implfree-timeout-ran-twice", "Implfree-ran-after-clear", "Implfree-uncleared-timeout-never-ran", "Implfree-timer-fired-early"],
    "C06": ["Implfree-stop-count-wrong", "Implfree-run-did-not-return-at-quiescence", "Implfree-run-did-not-return",
            "Implfree-run-returned-before-quiescence"],
    "C07": ["Implfree-stop-did-not-return", "Implfree-run-did-not-return-after-stop", "Implfree-accepted-not-run-once", "Implfree-timeout-ran-twice",
            "Implfree-api-call-panicked", "Implfree-uncleared-timeout-never-ran", "Implfree-accepted-function-never-ran"],
    "C08": ["Implfree-goroutine-left-after-terminate", "Implfree-terminate-did-not-return", "Implfree-ran-after-clear", "Implfree-refused-ran",
            "Implfree-ran-after-terminate", "Implfree-accepted-while-terminated", "Implfree-refused-after-restart"],
}
_LOOP_TRUST = ["Go runtime: goroutine scheduling between verifPoints is controlled by parking every thread at every point and granting one at a time; "
               "stability (all threads parked or blocked) is read from runtime.Stack goroutine states",
               "time.Timer/Ticker: real timers with 0-3 ms delays; whether Stop() won the race with an expiry is observed from len(loop.jobs)",
               "white-box reads through a file injected with go build -overlay (never written into the repository)",
               "goja: calling JS functions from Go, RunString"]
_LOOP_NOTE = ("Proof is about Model/Loop.v, a transition system over the 33 verifPoint names with program counters for run(), Stop() and Terminate(), "
              "the fields of EventLoop, the registry and the runtime side of every timer (armed / goroutine delivering / done). Atomicity between two "
              "points of a thread is the modelling assumption (each segment touches shared state under one lock or owns it). Tie: Gen/LoopSkeleton.v "
              "(every function of eventloop.go as text + order of points, regenerated each run, compared in <P>_source_tie) and the replay of "
              "controlled executions with a white-box snapshot before every grant. Not modelled: real time (only the delay arithmetic), goja's "
              "runtime, panics inside callbacks, StartInForeground is modelled but not exercised.")


def _loop(profile, level_text, rule, relevant, assumptions):
    pid = {"overlap": "C03", "fifo": "C04", "timers": "C05", "count": "C06", "stop": "C07", "terminate": "C08"}[profile]
    return dict(harness="loop", extra_harness="loopfree", module="Cases.LoopCheck", env={"VERIF_PROFILE": profile}, overlay=True, shard=30, codes=_LOOP_CODES,
                relevant=set(relevant) | set(_FREE[pid]) | {"Implhost-process-died", "Implfree-scenario-did-not-finish"}, level_text=level_text, level_note=_LOOP_NOTE, rule=rule, trusted=_LOOP_TRUST,
                assumptions=assumptions, harness_timeout=1500)


_LOOP_RULE = ("scenario = 1-3 submitter goroutines (RunOnLoop/SetTimeout/SetInterval/ClearTimeout/ClearInterval%s) x a controller "
              "(Start/Stop/Run/Terminate cycles, real-time idling) x callback programs nested to depth 2 (RunOnLoop, setTimeout/setInterval/"
              "setImmediate, clear* with matching and non-matching handles, throw%s), run under a seeded PCT-style scheduler that grants one parked "
              "thread at a time; every run ends with Start, idle, Terminate; non-trivial = at least one pre-emption; distinct by hash of the trace. "
              "Second phase (search for failing inputs only, no model): free-running scenarios under the Go scheduler with yields/sleeps injected at "
              "the points - lifecycle races, bursts of >1024 queued functions with submissions during later batches, exact Stop() counts over "
              "timers that cannot expire (incl. immediates clearing themselves), Stop() from another goroutine during Run(), timeouts that expire "
              "while the loop is busy/stopped and are cleared before delivery, then Terminate()")

PROPS["C03"] = _loop("overlap",
    "C03_single_owner / C03_stopped_no_run_thread / C03_work_needs_owner / C03_none_while_stopped / C03_stop_returns_stopped / "
    "C03_new_run_only_after_exit: in every state reachable by any interleaving, callbacks and queued functions are started only by the thread "
    "inside run() or by Terminate, the two never coexist, and none exists between the return of Stop() and the next start",
    _LOOP_RULE % ("", ""), ["SpecFail1", "SpecFail2", "Implcallbacks-overlap", "Implapi-call-panicked", "Implstuck"],
    ["Start/Run are not called concurrently with Stop/Terminate (documented contract)"])
PROPS["C04"] = _loop("fifo",
    "C04_queue_is_history (executed ++ batch ++ queue = accepted, in every reachable state, across Stop/Start/Run/Terminate), C04_executed_prefix, "
    "C04_executed_once, C04_refused_never_executed, C04_accept_iff_not_terminated, C04_no_lost_wakeup / C04_blocked_with_work_has_waker (a loop "
    "blocked in select with queued work always has a waker on its way), C04_terminate_runs_all_accepted; progress form: C04_head_progress "
    "(every run-thread step other than serving a timer job, and every delivered wake-up, strictly decreases a lexicographic measure of a "
    "queued function until it has run or the loop is leaving), C04_other_threads_keep, C04_blocked_is_woken, C04_measure_well_founded; "
    "slice level: C04_buffers_* (auxJobs / auxJobsSpare with backing arrays and capacities refine the model's two lists in every reachable "
    "state: batch and queue never share an array, the entry called is never nil, clearing a slot and appending never touch the other list)",
    _LOOP_RULE % ("", ""), ["SpecFail3", "SpecFail8", "Implaccepted-function-left-waiting", "Implstuck"],
    ["submission ids are pairwise distinct (one per call)"])
PROPS["C05"] = _loop("timers",
    "C05_one_shot_at_most_once, C05_cancelled_never_runs_again (over every continuation, restarts included), C05_clear_cancels, C05_clear_harmless, "
    "C05_live_timeout_registered, C05_delay_exact / C05_delay_never_shorter (msToDuration = milliseconds x 10^6 saturating, from the translated "
    "source), C05_interval_period; C05_live_timeout_can_run (possibility form of 'does run provided the loop keeps running': at the loop head a live "
    "timeout keeps run() from leaving and its expiry, job arm, delivery and call are all enabled and start its callback)",
    _LOOP_RULE % ("", ""), ["SpecFail4", "SpecFail5", "Impltimer-early", "Impltimer-arguments-wrong", "Implstuck"],
    ["'always eventually' (liveness under real time) is exercised by the runs, not proved; never-early in real time rests on time.AfterFunc/NewTicker"])
PROPS["C06"] = _loop("count",
    "C06_count_exact (jobCount = live jobs + 1 while a background loop counts itself, in every reachable state), C06_stop_returns_live, "
    "C06_run_leaves_iff_quiescent (exit taken iff no live job), C06_background_never_quiesces",
    _LOOP_RULE % (", StopNoWait", ", StopNoWait"), ["SpecFail6", "SpecFail7", "SpecFail9", "Implstuck"],
    ["a Go-side SetTimeout/SetInterval counts from the moment its start job runs on the loop"])
PROPS["C07"] = _loop("stop",
    "C07_stop_request_not_lost (token still in the channel or the run thread is on the exit path), C07_exit_path_progress (every run-thread step on "
    "that path decreases a lexicographic measure), C07_stop_noop_when_not_running, C07_lifecycle_keeps_work, C07_pending_timeout_kept, "
    "C07_queue_kept, C07_timeout_once",
    _LOOP_RULE % (", StopNoWait", ", StopNoWait"), ["SpecFail3", "SpecFail4", "SpecFail12", "Implstuck", "Implapi-call-panicked"],
    ["termination of Stop() under an unfair select (job arm chosen for ever while intervals tick) is probabilistic in Go; proved: the request is "
     "never lost and the exit path is finite"])
PROPS["C08"] = _loop("terminate",
    "C08_terminate_leaves_nothing (registry empty, every job's runtime timer/goroutine gone, every timeout/interval cancelled, queue drained), "
    "C08_cancelled_never_runs_again, C08_helpers_registered, C08_terminated_until_restart, C08_refuses_while_terminated, C08_restart_accepts; "
    "C08_registry_append / _remove_refines_model / _remove_idempotent: loop.jobs as the array it is (job.idx, move-last-into-slot removal) keeps "
    "jobs[k].idx = k, removes exactly that job (the set removal of the model) and is idempotent on jobs marked -1",
    _LOOP_RULE % ("", ""), ["SpecFail5", "SpecFail8", "SpecFail10", "SpecFail11", "Implgoroutine-left-after-terminate", "Impljobs-left-after-terminate",
                           "Impljobs-index-broken", "Implstuck"],
    ["Terminate is not called concurrently with Stop*/Start/Run (documented contract)"])


PROPS["C13"] = dict(
    harness="urlobj", module="Cases.C13Check", shard=60,
    level_text="C13_query_coherent (for every history of search/href assignments and searchParams append/delete/set/sort interleaved with the other "
               "setters, the materialised list is the parse of the raw query unless a searchParams change emptied it), C13_search_lists_params (then "
               "search is '' or '?'+query and searchParams lists exactly the pairs of that query; uses C12's parse(serialize l) = l), "
               "C13_serialisers_agree, C13_host_is_hostname_port (all host strings), C13_default_port_never_shown (invariant over all histories of "
               "port/protocol/host/hostname/href assignments), C13_search_/C13_href_assignment_takes_effect and C13_params_change_takes_effect (what search, "
               "searchParams and href read right after each kind of assignment, from every state - the functional half of the property), "
               "C13_tables_from_source, C13_source_tie",
    level_note="Proof is about Model/UrlObject.v: the Go url.URL fields the property talks about + the lazily synchronised list, setters and getters "
               "as written. net/url's Parse/String, ParseRequestURI, strings.ToLower, idna and path.Clean are parameters of the model (the host "
               "invariant assumes that accepted hosts have a 'plain' name part and that lower-casing/IDNA keep it plain; both observed at run time). "
               "'href parses again to the same href' and 'unparsable assignments are ignored' rest on net/url and are decided by the run-time oracle only. "
               "Tie: Gen/UrlGlue.v (port/protocol tables, text of 16 functions, shape of the three serialisers) + differential histories with every "
               "getter read after two thirds of the steps (the others are made blind, so that a step meets whatever the previous one left unread).",
    rule="base URL from 22 forms (schemes http/https/ws/wss/ftp/file/custom, userinfo, IPv6 literals with and without default port, IDN, empty and odd "
         "queries) x 1-7 operations from search/href/searchParams.append/delete/set/sort/port/protocol/host/hostname/hash/pathname with benign and "
         "hostile values, searchParams obtained before or after, list read at random steps, a third of the query/hash/path/userinfo steps blind; "
         "non-trivial = at least 2 operations; distinct by hash",
    codes={"Diff1": "search differs from the model", "Diff2": "host differs", "Diff3": "hostname differs", "Diff4": "port differs", "Diff5": "protocol differs",
           "Diff6": "searchParams list differs", "Diff7": "throw/no-throw differs", "Diff8": "observation count", "Diff9": "model rejects the base URL",
           "Diff11": "initial search differs", "Diff12": "initial host differs", "Diff13": "initial hostname differs", "Diff14": "initial port differs",
           "Diff15": "initial protocol differs", "Diff16": "initial list differs",
           "SpecFail1": "href, toString() and toJSON() differ", "SpecFail2": "search is not ''/'?'+query, or searchParams does not list the pairs of that query",
           "SpecFail3": "host is not hostname[':'port]", "SpecFail4": "the default port of the scheme is shown", "SpecFail5": "the query inside href is not the one search reports",
           "SpecFail6": "right after url.search was assigned, the pairs read back (searchParams, or the query search shows) are not those of the assigned query",
           "SpecFail7": "right after an accepted url.href assignment, the pairs read back are not those of the assigned URL's query",
           "SpecFail8": "right after a searchParams change, the list is not that change applied to the list read just before",
           "Implhref-does-not-reparse-to-itself": "new URL(u.href) throws or gives a different href", "Implconstructor-threw": "a base URL of the generator was rejected",
           "Implstep-failed": "harness step failed"},
    trusted=["net/url (Parse, String, ParseRequestURI, Port), golang.org/x/net/idna, strings.ToLower, path.Clean: evaluated by the harness with the same "
             "library functions and handed to the model as tables", "goja: accessor properties, Array.from, JSON"],
    assumptions=["opaque URLs (mailto:, foo:bar) are skipped", "numeric (non-string) port arguments are not modelled; the username/password setters are modelled as leaving every modelled field alone (OUserinfo) and exercised with hostile values",
                 "hosts of the pathological form 'a:80:' (a port-like suffix inside the name part) are outside the host invariant"],
)


PROPS["C14"] = dict(
    harness="urlres", module="Cases.C14Check", shard=100,
    level_text="C14_resolve_is_rfc3986: for every base and reference over ordinary segments, the constructor's pipeline (cleanPath of the base and of "
               "non-relative references, net/url's ResolveReference with its own case analysis, the fragment rule, the final fixURL) equals RFC 3986 "
               "5.2.2 against the normalised base, per component; C14_clean_is_remove_dot_segments, C14_remove_dots_idempotent, "
               "C14_ordinary_paths_closed; C14_rfc_examples (the specification reproduces the 42 normative examples of section 5.4); C14_source_tie",
    level_note="Proof is about Model/UrlResolve.v (components; paths as segment lists) against Spec/Rfc3986.v (transform, merge, remove_dot_segments, "
               "appendix-B parsing and recomposition). Go's resolvePath loop and path.Clean are modelled at segment level, net/url's string parser is "
               "not modelled: the run feeds the model with net/url's parse and the specification with its own appendix-B parse of the same strings. "
               "Scheme and host case folding, IDNA, default-port elision and percent-encoding are compared at run time against forms known by "
               "construction of the generator.",
    rule="base = scheme (5 special, sometimes upper-case) x userinfo x host form (names, upper-case, IDN, IPv4, IPv6) x port (none/default/other) x path "
         "depth 0-3 over 22 segment forms (unreserved, sub-delims, percent-encoded, non-ASCII, dot-like names) x trailing slash x query x fragment; "
         "reference = absolute / scheme-relative / path-absolute / path-relative with '.' and '..' segments / query-only / fragment-only / empty; 7% one-"
         "argument calls incl. strings without a scheme; compared per component after percent-decoding; non-trivial = path-absolute or path-relative",
    codes={"SpecFail1": "scheme differs from RFC 3986 5.2 / lower-casing", "SpecFail2": "authority differs (userinfo, host form, default port)",
           "SpecFail3": "path differs (merge, dot segments, trailing slash)", "SpecFail4": "query differs", "SpecFail5": "fragment differs",
           "Diff1": "model: scheme", "Diff3": "model: path", "Diff4": "model: query", "Diff5": "model: fragment", "Diff9": "net/url rejected a generated string",
           "Implvalid-pair-rejected": "new URL threw on a pair of the grammar", "Implaccepted-string-without-scheme": "new URL(s) accepted a string without scheme"},
    trusted=["net/url.Parse (string to components), golang.org/x/net/idna", "goja"],
    assumptions=["outside the claim as in the property: empty path segments, percent-encoded '/' and '.', opaque paths, IPv4 number forms, back-slashes, "
                 "the origin getter, a second '#' in a fragment"],
)


PROPS["C18"] = dict(
    harness="jsorder", module="Cases.C18Check", shard=100,
    level_text="C18_immediates_fifo (for every program and every timer schedule: ran ++ waiting = requests in order, minus those cleared while waiting), "
               "C18_reactions_before_next_macro, C18_reactions_fifo, C18_throw_skips_only_its_body, C18_body_keeps_queued, C18_accepted_log_ordered "
               "(every log the judge accepts has these properties), C18_immediates_use_the_fifo_queue (C04's invariant of the loop model), C18_source_tie",
    level_note="Proof is about Model/JsOrder.v, an abstract machine for callback bodies (queue a reaction / immediate / timer, clear, throw) that runs one "
               "macro task and then all reactions, with the firing order of timers left free. goja's promise job queue ('reactions run when the call "
               "stack empties, in order') and the wrappers of schedule()/setImmediate() are what the machine abstracts; the tie is the judge applied "
               "to the logs of generated programs on the real loop, and the text of the loop's functions (shared with C03-C08).",
    rule="program = tree of 1-60 callbacks to depth 3: promise reactions, setImmediate, setTimeout (0-2 ms), self-clearing setInterval, clearImmediate/"
         "clearTimeout/clearInterval of handles created earlier (also before they exist, after they ran, twice), busy-waits, throws in scripts, "
         "reactions, immediates and timers; run with loop.Run on real timers; non-trivial = at least 4 callbacks; distinct by hash",
    codes={"SpecFail1": "the observed order breaks a rule (a reaction was overtaken, immediates out of request order, a cleared/unscheduled callback ran)",
           "SpecFail2": "a queued promise reaction never ran", "SpecFail3": "a requested immediate never ran",
           "SpecFail4": "Run() returned although an armed, uncleared timer had not run", "Diff1": "generator produced a duplicate immediate id",
           "Implrun-did-not-return": "Run() did not return within 5 s"},
    trusted=["goja: promise job queue semantics and callable wrappers", "real-time timers (firing order is not constrained by the judge)"],
    assumptions=["each callback is scheduled at most once (tree-shaped programs)", "no order is promised between different timers"],
)


PROPS["C17"] = dict(
    harness="share", module="Cases.C17Check", shard=100, race=True, harness_timeout=2400,
    level_text="C17_loop_accesses_ordered: on the access table regenerated from eventloop.go (93 reads/writes of loop, job, Timer and Interval fields, "
               "with the mutexes held and the sync/atomic calls), every conflicting pair is ordered: both atomic, a common mutex, the same goroutine "
               "(the owner, unique by C17_single_owner = C03), or before publication; C17_registry_accesses_ordered for the Registry; "
               "C17_loaded_at_most_once / _exactly_once / C17_order_irrelevant: the compile cache as a function of any request sequence; "
               "C17_lock_discipline: on the table of synchronisation events regenerated from the source, one global lock order, no re-acquisition, "
               "nothing that can block on another thread inside a critical section, the only wait inside one is the condition wait that releases it",
    level_note="The race-freedom theorems are computations over tables the translator extracts syntactically on every run (unit, use of each function "
               "literal, field, read/write, locks held, atomic); which goroutines may execute a unit is the hand-written part of Model/LoopAccess.v. "
               "Go's memory model (mutex, atomic, channel and go-statement ordering) is trusted, as are goja's internals (a runtime is used by one "
               "goroutine at a time exactly when the owner is unique). Deadlock: the mutex part is decided on the generated table of synchronisation "
               "events (C17_lock_discipline; the semantics of sync.Mutex / sync.Cond is trusted); waits on channels and on the condition variable are "
               "the subject of the model's theorems (C04 no lost wake-up, C07 stop request never lost) and are exercised with time-outs. Executed interleavings "
               "are additionally checked by the Go race detector (harness built with -race, workload in a child process).",
    rule="(A) per batch 6 loops: 2-6 goroutines x 200 calls of RunOnLoop/SetTimeout/SetInterval/ClearTimeout/ClearInterval/StopNoWait with random "
         "pauses against a started loop whose controller cycles Stop/Terminate/Start; callbacks run JavaScript that sets more timers and immediates; "
         "(B) per batch 40 registries: 3-7 files (loadable / not compiling / missing), 2-7 runtimes on goroutines released together, each requiring "
         "1-9 files; SourceLoader calls counted per path, module state marked per runtime; non-trivial = at least 3 runtimes",
    codes={"SpecFail1": "a loadable file was fetched more than once", "SpecFail2": "a runtime saw the module state of another runtime",
           "SpecFail3": "a runtime evaluated a module body a number of times different from the distinct loadable files it required",
           "Diff1": "loader calls differ from the compile-cache model", "Impldata-race": "the Go race detector reported a data race",
           "Implmodule-state-shared-between-runtimes": "a module loaded from the shared Registry used another runtime's module instance (console printed through another runtime's util)",
           "Implsource-file-fetched-more-than-once": "the SourceLoader was asked more than once, by runtimes sharing one Registry, for the package.json (or the main file) of a package directory",
           "Impldeadlock-or-hang": "the workload did not finish within 120 s", "Implworkload-crashed": "the workload process crashed"},
    trusted=["Go memory model; Go race detector (reports only executed interleavings)", "goja"],
    assumptions=["RegisterNativeModule and the Registry options are called before the Registry is shared", "Start/Stop/Terminate from one goroutine"],
)
